"""Which models, generators and driver families decide which property (see DESIGN.md section 6)."""

COMMON_ASSUME = [
    "the harness (harness/src/runner.rs) calls the public API and serialises what it observes faithfully; it contains no reference implementation",
    "TLC evaluates the TLA+ modules correctly; the CRC table literal in Pec.tla is checked against the bit-serial definition in MC_Pec",
    "inputs not reached by the drivers and TLC-generated scenarios behave like those reached (no behaviour keyed on unexplored values)",
]

MODELS = {
    "MC_Pec": {"tla": "MC_Pec.tla", "cfg": "MC_Pec.cfg"},
    "MC_Codec": {"tla": "MC_Codec.tla", "cfg": "MC_Codec.cfg"},
    "MC_Decode": {"tla": "MC_Decode.tla", "cfg": "MC_Decode.cfg", "cfg_thorough": "MC_Decode_full.cfg"},
    "MC_Layout": {"tla": "MC_Layout.tla", "cfg": "MC_Layout.cfg", "cfg_thorough": "MC_Layout_full.cfg"},
    "MC_Link": {"tla": "MC_Link.tla", "cfg": "MC_Link.cfg", "cfg_thorough": "MC_Link_two.cfg"},
    "MC_Bus2": {"tla": "MC_Bus2.tla", "cfg": "MC_Bus2.cfg"},
    "MC_LinkReassign": {"tla": "MC_Link.tla", "cfg": "MC_Link_reassign_nodup.cfg"},
    "MC_Endpoint": {"tla": "MC_Endpoint.tla", "cfg": "MC_Endpoint.cfg", "cfg_thorough": "MC_Endpoint_two.cfg"},
}

# spec -> impl scenario generators (TLC prints behaviours, the harness executes them)
GEN = {
    "GenEndpoint": {"tla": "GenEndpoint.tla", "cfg": "GenEndpoint.cfg"},
    "GenEndpointSim": {"tla": "GenEndpoint.tla", "cfg": "GenEndpoint_sim.cfg", "simulate_quick": "num=12", "depth": 50,
                       "simulate_thorough": "num=150"},
    "GenEndpoint3": {"tla": "GenEndpoint.tla", "cfg": "GenEndpoint3.cfg"},
    "GenEndpoint3Full": {"tla": "GenEndpoint.tla", "cfg": "GenEndpoint3_full.cfg"},
    "GenLink": {"tla": "GenLink.tla", "cfg": "GenLink.cfg"},
    "GenBus2": {"tla": "GenBus2.tla", "cfg": "GenBus2.cfg"},
    "GenBus2Two": {"tla": "GenBus2.tla", "cfg": "GenBus2_two.cfg", "simulate_thorough": "num=3000", "simulate_quick": "num=200", "depth": 300, "timeout": 3000},
    "GenLinkTwo": {"tla": "GenLink.tla", "cfg": "GenLink_two.cfg", "simulate_thorough": "num=4000", "simulate_quick": "num=300", "depth": 400, "timeout": 3000},
    "GenAlphabet": {"tla": "GenEndpoint.tla", "cfg": "GenAlphabet.cfg"},
    "GenDecode": {"tla": "GenDecode.tla", "cfg": "GenDecode.cfg"},
    "GenDecodeFull": {"tla": "GenDecode.tla", "cfg": "GenDecode_full.cfg"},
}

PLAN = {}


def P(prop, level, rule, **kw):
    d = {"level": level, "rule": rule, "assumptions": COMMON_ASSUME + kw.pop("assume", [])}
    d.update(kw)
    PLAN[prop] = d


P("C01", "model_checking",
  "non-trivial = a decode_packet/process_packet call on exactly the bytes the immediately preceding encoder call produced; distinct = distinct (context, packet bytes)",
  models=["MC_Codec"], families=["seed", "requests", "responses", "vendor", "lengths"])
P("C02", "model_checking",
  "non-trivial = decode/process of a byte string whose last byte is not the PEC of the rest (every <=8-bit burst of every corpus packet, wrong PEC bytes, random strings); distinct = distinct (context, input bytes)",
  models=["MC_Pec", "MC_Decode", "MC_Endpoint", "MC_Link", "MC_Bus2"], gen_quick=["GenEndpoint", "GenLink", "GenBus2"], gen_thorough=["GenEndpoint", "GenLinkTwo", "GenBus2", "GenBus2Two"], families=["bus", "corrupt"])
P("C03", "model_checking",
  "non-trivial = an encoder call that returned Ok (PEC of the output recomputed by the spec); distinct = distinct encoder arguments",
  models=["MC_Pec", "MC_Codec", "MC_Bus2"], gen=["GenAlphabet"], families=["tour", "identity", "vendor_enum", "forge", "lengths", "requests", "responses", "vendor"])
P("C04", "model_checking",
  "non-trivial = an encoder call with 7-bit source/destination that returned Ok or whose message does not fit; distinct = distinct arguments",
  models=["MC_Codec", "MC_Link"], gen=["GenAlphabet"], families=["hdr_sweep", "tour", "identity", "vendor_enum", "forge", "lengths", "requests", "responses", "vendor"])
P("C05", "model_checking",
  "non-trivial = an encoder call that returned Ok; distinct = distinct (context address, arguments)",
  models=["MC_Codec"], gen=["GenAlphabet"], families=["tour", "identity", "vendor_enum", "forge", "hdr_sweep", "requests", "responses", "vendor"])
P("C06", "model_checking",
  "non-trivial = a control request encoder call that returned Ok; distinct = distinct (encoder, arguments)",
  models=["MC_Codec"], families=["requests"])
P("C07", "model_checking",
  "non-trivial = a control response encoder call that returned Ok; distinct = distinct (encoder, arguments, stored EID)",
  models=["MC_Codec"], gen=["GenAlphabet"], families=["tour", "identity", "vendor_enum", "forge", "responses"])
P("C08", "model_checking",
  "non-trivial = a vendor_defined / generate_{pci,iana,spdm}_msg_packet_bytes call; distinct = distinct arguments",
  models=["MC_Codec"], families=["vendor", "lengths"])
P("C09", "model_checking",
  "non-trivial = decode_packet on an input inside C09's claim (not too short, not a response to Get EID / Allocate EIDs / Routing Update); distinct = distinct (context, bytes)",
  models=["MC_Decode", "MC_Endpoint"], gen_quick=["GenDecode"], gen_thorough=["GenDecodeFull"], families=["seed", "mutate", "robust"])
P("C10", "exploration",
  "every decode_packet / get_length / process_packet call is an evaluation (panic trapped as data); distinct = distinct (op, context, input bytes)",
  models=["MC_Decode", "MC_Endpoint"], gen_quick=["GenDecode"], gen_thorough=["GenDecodeFull"], families=["identity", "vendor_enum", "seed", "history", "bus", "robust", "mutate", "corrupt"])
P("C11", "model_checking",
  "non-trivial = a process_packet call where both decode_packet and process_packet returned; distinct = distinct (context, bytes, buffer size)",
  models=["MC_Endpoint"], gen_quick=["GenEndpoint", "GenEndpoint3", "GenEndpointSim", "GenLink"], gen_thorough=["GenEndpoint", "GenEndpoint3Full", "GenEndpointSim", "GenLinkTwo"], families=["identity", "bus", "forge", "robust", "corrupt"])
P("C12", "model_checking",
  "non-trivial = process_packet on an accepted control request in C12's domain (answerable command, source address = source EID < 0x80, D = 0); distinct = distinct (context, request bytes)",
  models=["MC_Endpoint", "MC_Link"], gen_quick=["GenEndpoint", "GenEndpoint3", "GenEndpointSim", "GenLink"], gen_thorough=["GenEndpoint", "GenEndpoint3Full", "GenEndpointSim", "GenLinkTwo"], families=["bus", "forge", "vendor_enum", "identity", "history"])
P("C13", "model_checking",
  "non-trivial = a processed Set/Get Endpoint ID packet (accepted, rejected or corrupted) or a direct accessor call; every event with a context is an evaluation of 'nothing else changes it'; distinct = distinct (context, input)",
  models=["MC_Endpoint", "MC_Link", "MC_LinkReassign", "MC_Bus2"], gen_quick=["GenAlphabet", "GenEndpoint", "GenEndpoint3", "GenEndpointSim", "GenLink", "GenBus2"], gen_thorough=["GenAlphabet", "GenEndpoint", "GenEndpoint3Full", "GenEndpointSim", "GenLinkTwo", "GenBus2", "GenBus2Two"], families=["bus", "tour", "history", "forge", "corrupt"])
P("C14", "model_checking",
  "non-trivial = process_packet on an accepted Get Vendor Defined Message Support request with selector < n; distinct = distinct (configuration, request)",
  models=["MC_Endpoint", "MC_Link"], gen_quick=["GenEndpoint", "GenEndpoint3", "GenEndpointSim", "GenLink"], gen_thorough=["GenEndpoint", "GenEndpoint3Full", "GenEndpointSim", "GenLinkTwo"], families=["bus", "vendor_enum", "forge"])
P("C15", "model_checking",
  "non-trivial = process_packet on an accepted Get UUID / Get Version / Get Message Type Support request; distinct = distinct (configuration, UUID history, request)",
  models=["MC_Endpoint", "MC_Link"], gen_quick=["GenEndpoint", "GenEndpoint3", "GenEndpointSim", "GenLink"], gen_thorough=["GenEndpoint", "GenEndpoint3Full", "GenEndpointSim", "GenLinkTwo"], families=["bus", "identity", "forge"])
P("C16", "model_checking",
  "every encoder call is an evaluation (refusal table, exact write extent via poisoned buffers, independence from capacity/poison via repeated calls); distinct = distinct (arguments, capacity, poison)",
  models=["MC_Codec"], families=["requests", "responses", "vendor", "lengths"])
P("C17", "model_checking",
  "non-trivial = a get_length call or a batch of 256 x K calls sharing bytes 1-2; distinct = distinct inputs / (b1,b2) batches",
  models=["MC_Decode", "MC_Endpoint"], families=["probe"], exhaustive_thorough=True)
P("C18", "exploration",
  "every getter / setter / constructor / validator call on a header view is an evaluation; distinct = distinct (view, raw, field, value)",
  models=["MC_Layout"], families=["headers"])
P("C19", "model_checking",
  "every From<u8> conversion of all 256 bytes for command codes and message types and 0-5 for completion codes; distinct = distinct (enum, byte)",
  models=["MC_Layout"], families=["conv"], exhaustive_quick=True, exhaustive_thorough=True)

# thorough tier: the random families are run under several seeds (a sharded run of a family that does not split
# its own work is the same family under another seed, see harness/src/drivers.rs)
def _mult(fams, m):
    return [((f, m[f]) if (isinstance(f, str) and f in m and f != "tour") else f) for f in fams]

_THOROUGH_SEEDS = {"history": 4, "bus": 4, "forge": 2, "mutate": 2, "robust": 2, "vendor_enum": 3, "identity": 2, "requests": 2, "responses": 2}
for _p in PLAN.values():
    _p["families_thorough"] = _mult(_p.get("families", []), _THOROUGH_SEEDS)

# the committed finding scenarios are replayed by the checks of the properties they concern (regression:
# a repaired defect that returns is reported again, an open one is matched against its recorded deviation)
import json as _json, os as _os
_kf = _json.load(open(_os.path.join(_os.path.dirname(_os.path.dirname(_os.path.abspath(__file__))), "known_findings.json")))
for _f in _kf["findings"]:
    for _p in _f["properties"]:
        PLAN[_p].setdefault("scenarios", []).append(_f["scenario"])
