#!/usr/bin/env python3
"""Regenerates MANIFEST.json from lib/plan.py (single source of truth for what each check runs)."""
import json, os, sys
ROOT = os.path.dirname(os.path.dirname(os.path.abspath(__file__)))
sys.path.insert(0, os.path.join(ROOT, "lib"))
from plan import PLAN, MODELS, GEN

TEXT = {
 "model_checking": "The property is stated as invariants / action properties of the TLA+ specification and checked by TLC on the models listed in the evidence; the real code is bound to that specification by trace validation: every call made by the listed driver families and TLC-generated scenarios is recorded (arguments, full result, buffers, payload offsets, both EID cells) and TLC (spec/Trace.tla) evaluates this property's predicate on every event. Spec-level result: exhaustive for the stated constants. Code-level result: holds on every explored call; exhaustive only where the evidence says so.",
 "exploration": "Observed on the real code over the input classes the property's quantifier names, enumerated from the specification; the TLA+ spec supplies the oracle (TLC evaluates it on every recorded event) but cannot prove absence of panics / cover 2^32 raw patterns, so this is exploration, not proof.",
}
NOTE = "Trusted base: TLC, the TLA+ modules in spec/ (transcribed from DSP0236/DSP0237 and the property text, cross-checked by TLC), the recording harness (no reference implementation inside), rustc. Events are judged by TLC only; the Python wrapper orchestrates and counts."

def main():
    checks = []
    for prop in sorted(PLAN):
        p = PLAN[prop]
        fam = ", ".join(f if isinstance(f, str) else "%s x%d" % f for f in p.get("families", []))
        mods = ", ".join(p.get("models", []))
        gens = ", ".join(p.get("gen", []))
        checks.append({
            "property_id": prop,
            "quick_cmd": "./check %s --tier quick" % prop,
            "thorough_cmd": "./check %s --tier thorough" % prop,
            "evidence_file": "evidence/%s.json" % prop,
            "replay_cmd_template": "./check --replay {path}",
            "engine": "tlc-trace" if not mods else "tlc-model+tlc-trace",
            "level_claimed": {"category": p["level"], "text": TEXT[p["level"]], "design_ref": "DESIGN.md section 6, " + prop},
            "level_note": NOTE,
            "technique": "TLA+ spec model-checked with TLC (%s); conformance by TLC trace validation of recorded executions (driver families: %s%s)" % (
                mods or "shared Codec/Responder operators", fam, ("; TLC-generated scenarios: " + gens) if gens else ""),
        })
    m = {
        "version": 1,
        "setup_cmd": "./check setup",
        "hooks": {
            "guard": "libmctp_verif",
            "enable": "harness/.cargo/config.toml passes --cfg libmctp_verif when it builds /repo; no hook was needed (the public API exposes the abstract state), so no source commit carries the guard",
            "baseline_off_cmd": "cd /repo && cargo test --workspace --no-fail-fast --offline",
            "source_commits": [],
            "add_only": True,
        },
        "engines": [
            {"name": "tlc-model", "path": "spec/mc", "serves_properties": sorted(k for k in PLAN if PLAN[k].get("models")), "kind_free_text": "TLC model checking of the TLA+ specification (bounded constants, exhaustive)"},
            {"name": "tlc-trace", "path": "spec/Trace.tla", "serves_properties": sorted(PLAN), "kind_free_text": "TLC trace validation: total monitor evaluating every property predicate on every recorded event"},
            {"name": "rust-harness", "path": "harness", "serves_properties": sorted(PLAN), "kind_free_text": "records executions of the real libmctp (seeded drivers, TLC-generated scenarios, replay files)"},
        ],
        "checks": checks,
        "not_applicable": [],
        "notes": "See DESIGN.md. Known findings: known_findings.json. Seeded mutants: seeded/.",
    }
    json.dump(m, open(os.path.join(ROOT, "MANIFEST.json"), "w"), indent=1)
    print("MANIFEST.json: %d checks" % len(checks))

main()
