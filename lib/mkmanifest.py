#!/usr/bin/env python3
"""Regenerates MANIFEST.json from lib/plan.py (single source of truth for what each check runs)."""
import json, os, sys
ROOT = os.path.dirname(os.path.dirname(os.path.abspath(__file__)))
sys.path.insert(0, os.path.join(ROOT, "lib"))
from plan import PLAN, MODELS, GEN

TEXT = {
 "model_checking": "The property is stated as invariants / action properties of the TLA+ specification and checked by TLC on the models listed in the evidence; the real code is bound to that specification by trace validation: every call made by the listed driver families and TLC-generated scenarios is recorded (arguments, full result, buffers, payload offsets, both EID cells) and TLC (spec/Trace.tla) evaluates this property's predicate on every event. Spec-level result: exhaustive for the stated constants. Code-level result: holds on every explored call; exhaustive only where the evidence says so.",
 "exploration": "Observed on the real code over the input classes the property's quantifier names, enumerated from the specification; the TLA+ spec supplies the oracle (TLC evaluates it on every recorded event) but cannot prove absence of panics / cover 2^32 raw patterns, so this is exploration, not proof.",
}
PER_PROP = {
 "C10": "Observed on the real code: every decode_packet / get_length / process_packet call made by the listed families and TLC-generated scenarios is wrapped in catch_unwind and a panic is recorded as an outcome, which fails this property unless an open known finding explains it exactly. The TLA+ spec supplies the enumeration of the input classes the quantifier names (every truncation point, command code, completion code, operation, selector, length around the limits) and, on the ideal spec, an outcome for every input that is never 'panic' (MC_Decode, MC_Endpoint). Absence of panics in Rust cannot be model-checked from here, so this is exploration, not proof. Only unwinding panics are observed: an abort, stack overflow or non-terminating call ends the harness and is reported as a tool error (exit 2), not as a violation.",
 "C18": "Pure bit-layout functions. On the spec: two independent transcriptions of every layout (byte/bit table vs. the documented MSB0/LSB0 bit ranges) agree for all raws of the 1- and 2-byte views and per-byte sweeps of the 4-byte views, setters change only their field (MC_Layout). On the code: every getter / setter / constructor / validator call is recorded and TLC evaluates the layout table on it; reads are exhaustive for the 2^8 and 2^16 views in the thorough tier, everything else (writes, the 2^32 views) is per-byte exhaustive and otherwise sampled - hence exploration.",
 "C17": "On the spec the length probe is a three-line function of bytes 1-2 (checked by TLC over MC_Decode's byte strings). The substance is on the code: the thorough tier executes all 2^24 three-byte prefixes with 7 continuations each on three contexts (65 536 batch events, each required to produce the single result the spec computes), the quick tier all command-code bytes x edge values; inputs shorter than three bytes must be rejected. Recorded events are judged by TLC (Trace.tla).",
 "C19": "On the spec the code-point tables are checked by TLC as ASSUMEs (total, inverting the numeric values; MC_Layout). On the code the check is exhaustive: all 256 bytes for command codes and message types, 0-5 for completion codes, each conversion recorded and judged by TLC against the tables.",
}
NOTE = "Trusted base: TLC, the TLA+ modules in spec/ (transcribed from DSP0236/DSP0237 and the property text, cross-checked by TLC), the recording harness (no reference implementation inside), rustc. Events are judged by TLC only; the Python wrapper orchestrates and counts."

def main():
    checks = []
    for prop in sorted(PLAN):
        p = PLAN[prop]
        fam = ", ".join(f if isinstance(f, str) else "%s x%d" % f for f in p.get("families", []))
        mods = ", ".join(p.get("models", []))
        gq = p.get("gen_quick", p.get("gen", []))
        gt = p.get("gen_thorough", p.get("gen", []))
        gens = ", ".join(gq) + ((" (thorough: " + ", ".join(gt) + ")") if gt != gq else "")
        checks.append({
            "property_id": prop,
            "quick_cmd": "./check %s --tier quick" % prop,
            "thorough_cmd": "./check %s --tier thorough" % prop,
            "evidence_file": "evidence/%s.json" % prop,
            "replay_cmd_template": "./check --replay {path}",
            "engine": "tlc-trace" if not mods else "tlc-model+tlc-trace",
            "level_claimed": {"category": p["level"], "text": PER_PROP.get(prop, TEXT[p["level"]]), "design_ref": "DESIGN.md section 14 (as built; 14.10 lists what this check runs) and section 6 (original plan; section 14 prevails), " + prop},
            "level_note": NOTE,
            "technique": "TLA+ spec model-checked with TLC (%s); conformance by TLC trace validation of recorded executions (driver families: %s%s)" % (
                mods or "shared Codec/Responder operators", fam, ("; TLC-generated scenarios: " + gens) if gens else ""),
        })
    m = {
        "version": 1,
        "setup_cmd": "./check setup",
        "hooks": {
            "guard": "libmctp_verif",
            "enable": "harness/.cargo/config.toml passes --cfg libmctp_verif when it builds /repo; no hook was needed (the public API exposes the abstract state), so no source commit carries the guard",
            "baseline_off_cmd": "cd /repo && cargo test --workspace --no-fail-fast --offline",
            "source_commits": [],
            "add_only": True,
        },
        "engines": [
            {"name": "tlc-model", "path": "spec/mc", "serves_properties": sorted(k for k in PLAN if PLAN[k].get("models")), "kind_free_text": "TLC model checking of the TLA+ specification (bounded constants, exhaustive)"},
            {"name": "tlc-trace", "path": "spec/Trace.tla", "serves_properties": sorted(PLAN), "kind_free_text": "TLC trace validation: total monitor evaluating every property predicate on every recorded event"},
            {"name": "tlc-model+tlc-trace", "path": "check", "serves_properties": sorted(PLAN), "kind_free_text": "the pipeline ./check runs for a property: tlc-model on the specification, rust-harness to record executions of /repo (drivers, TLC-generated scenarios), tlc-trace to validate every recorded event"},
            {"name": "rust-harness", "path": "harness", "serves_properties": sorted(PLAN), "kind_free_text": "records executions of the real libmctp (seeded drivers, TLC-generated scenarios, replay files)"},
        ],
        "checks": checks,
        "not_applicable": [],
        "notes": "See DESIGN.md. Known findings: known_findings.json. Seeded mutants: seeded/.",
    }
    json.dump(m, open(os.path.join(ROOT, "MANIFEST.json"), "w"), indent=1)
    print("MANIFEST.json: %d checks" % len(checks))

main()
