#!/usr/bin/env python3
"""Regenerates the 'as built' per-property table in DESIGN.md (between the AS-BUILT markers) from lib/plan.py."""
import os, sys, re
ROOT = os.path.dirname(os.path.dirname(os.path.abspath(__file__)))
sys.path.insert(0, os.path.join(ROOT, "lib"))
from plan import PLAN, MODELS, GEN

def fams(p, tier):
    return p.get("families_" + tier, p.get("families", []))

rows = ["| property | level | TLC models (quick / thorough cfg) | spec -> impl generators | impl -> spec driver families | finding scenarios replayed |",
        "|---|---|---|---|---|---|"]
for k in sorted(PLAN):
    p = PLAN[k]
    ms = ", ".join("%s (%s%s)" % (m, MODELS[m]["cfg"].replace(".cfg", ""), (" / " + MODELS[m]["cfg_thorough"].replace(".cfg", "")) if "cfg_thorough" in MODELS[m] else "") for m in p.get("models", []))
    gq = p.get("gen_quick", p.get("gen", []))
    gt = p.get("gen_thorough", p.get("gen", []))
    gs = ", ".join(gq) + ((" / " + ", ".join(gt)) if gt != gq else "")
    fs = ", ".join(f if isinstance(f, str) else "%s x%d" % f for f in fams(p, "quick"))
    sc = ", ".join(os.path.basename(s).replace(".ndjson", "") for s in p.get("scenarios", []))
    rows.append("| %s | %s | %s | %s | %s | %s |" % (k, p["level"], ms or "-", gs or "-", fs, sc or "-"))
table = "\n".join(rows)
d = open(os.path.join(ROOT, "DESIGN.md")).read()
a, b = "<!-- AS-BUILT-BEGIN -->", "<!-- AS-BUILT-END -->"
if a in d:
    d = d[:d.index(a) + len(a)] + "\n" + table + "\n" + d[d.index(b):]
    open(os.path.join(ROOT, "DESIGN.md"), "w").write(d)
    print("DESIGN.md table updated")
else:
    print(table)
