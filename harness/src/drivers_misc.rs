//! Driver families for the pure functions: header views (C18) and enum conversions (C19).

use crate::drivers::*;
use serde_json::json;

fn fields_of(view: &str) -> &'static [&'static str] {
    match view {
        "smbus" => &["dest_read_write", "dest_slave_addr", "command_code", "byte_count", "source_read_write", "source_slave_addr"],
        "transport" => &["hdr_version", "dest_endpoint_id", "source_endpoint_id", "som", "eom", "pkt_seq", "to", "msg_tag"],
        "body" => &["msg_type"],
        "control" => &["rq", "d", "instance_id", "command_code"],
        "routing" => &["entry_type", "eid_range_size", "first_eid", "physical_address"],
        _ => &[],
    }
}

fn view_len(view: &str) -> usize {
    match view {
        "body" => 1,
        "control" | "pci" => 2,
        _ => 4,
    }
}

/// Stratified raw buffers: all-zero, all-one, walking one / zero, then random.
fn strat_raws(d: &mut D, n: usize, count: usize) -> Vec<Vec<u8>> {
    let mut v: Vec<Vec<u8>> = vec![vec![0; n], vec![0xFF; n]];
    for bit in 0..(n * 8) {
        let mut a = vec![0u8; n];
        a[bit / 8] |= 0x80 >> (bit % 8);
        v.push(a.clone());
        v.push(a.iter().map(|x| !x).collect());
    }
    while v.len() < count {
        v.push(d.g.bytes(n));
    }
    v
}

pub fn headers(d: &mut D) {
    // --- reads: exhaustive for the 2^8 and 2^16 views
    for b in 0..=255u64 {
        d.ex(json!({"op":"hdr_get","view":"body","raw":[b]}));
        d.ex(json!({"op":"hdr_from_buf","view":"body","raw":[b]}));
    }
    let step16 = if d.thorough { 1 } else { 13 };
    for v in (0..=65535u64).step_by(step16) {
        let raw = json!([v >> 8, v & 0xFF]);
        d.ex(json!({"op":"hdr_get","view":"control","raw":raw}));
        d.ex(json!({"op":"hdr_get","view":"pci","raw":raw}));
    }
    if !d.thorough {
        // every first byte and every second byte at least once
        for b in 0..=255u64 {
            let o = d.g.byte();
            d.ex(json!({"op":"hdr_get","view":"control","raw":[b, o]}));
            d.ex(json!({"op":"hdr_get","view":"control","raw":[o, b]}));
            d.ex(json!({"op":"hdr_get","view":"pci","raw":[b, o]}));
            d.ex(json!({"op":"hdr_get","view":"pci","raw":[o, b]}));
        }
    }
    // --- reads of the 2^32 views: per-byte sweeps, walking bits, random
    for view in ["smbus", "transport", "routing", "iana"] {
        let reps = if d.thorough { 64 } else { 4 };
        for pos in 0..4usize {
            for b in 0..=255u64 {
                for _ in 0..reps {
                    let mut raw = d.g.bytes(4);
                    raw[pos] = b as u8;
                    d.ex(json!({"op":"hdr_get","view":view,"raw":jb(&raw)}));
                }
            }
        }
        for raw in strat_raws(d, 4, if d.thorough { 100_000 } else { 600 }) {
            d.ex(json!({"op":"hdr_get","view":view,"raw":jb(&raw)}));
        }
    }
    // --- writes: every (field, value) against stratified raws
    for view in ["smbus", "transport", "body", "control", "routing"] {
        let n = view_len(view);
        let raws = strat_raws(d, n, if d.thorough { 256 } else { 2 * n * 8 + 6 });
        for f in fields_of(view) {
            for val in 0..=255u64 {
                let picks: Vec<Vec<u8>> = if d.thorough || val < 4 || val > 251 || val.count_ones() == 1 {
                    raws.clone()
                } else {
                    vec![raws[0].clone(), raws[1].clone(), d.g.pick(&raws).clone(), d.g.bytes(n)]
                };
                for raw in picks {
                    d.ex(json!({"op":"hdr_set","view":view,"raw":jb(&raw),"field":f,"value":val}));
                }
            }
        }
    }
    // the 16- and 32-bit vendor id fields: per-byte sweeps and random values
    for (view, n) in [("pci", 2usize), ("iana", 4usize)] {
        for pos in 0..n {
            for b in 0..=255u64 {
                let mut val = d.g.bytes(n);
                val[pos] = b as u8;
                let raw = d.g.bytes(n);
                d.ex(json!({"op":"hdr_set","view":view,"raw":jb(&raw),"field":"vendor_id","value":jb(&val)}));
                d.ex(json!({"op":"hdr_new","view":view,"args":{"vendor_id":jb(&val)}}));
            }
        }
        for _ in 0..(if d.thorough { 20000 } else { 300 }) {
            let val = d.g.bytes(n);
            let raw = d.g.bytes(n);
            d.ex(json!({"op":"hdr_set","view":view,"raw":jb(&raw),"field":"vendor_id","value":jb(&val)}));
        }
    }
    // --- views laid over a backing buffer that is longer than the view (e.g. directly over received bytes):
    // the extra bytes are neither read nor written
    for view in ["smbus", "transport", "body", "control", "routing", "pci", "iana"] {
        let n = view_len(view);
        for extra in [1usize, 2, 3, 7] {
            for rep in 0..(if d.thorough { 200 } else { 12 }) {
                let mut raw = d.g.bytes(n + extra);
                if rep % 3 == 0 {
                    // extra bytes that would show up in any field: all ones / the complement of the view's bytes
                    for i in n..n + extra {
                        raw[i] = if rep % 2 == 0 { 0xFF } else { !raw[i % n] };
                    }
                }
                if rep % 4 == 1 {
                    for b in raw.iter_mut().take(n) {
                        *b = 0;
                    }
                }
                d.ex(json!({"op":"hdr_get","view":view,"raw":jb(&raw)}));
                if view == "pci" || view == "iana" {
                    let val = d.g.bytes(n);
                    d.ex(json!({"op":"hdr_set","view":view,"raw":jb(&raw),"field":"vendor_id","value":jb(&val)}));
                } else {
                    for f in fields_of(view) {
                        let val = *d.g.pick(&[0u64, 1, 0xFF, 0x7F, 0x80, 0x55]);
                        d.ex(json!({"op":"hdr_set","view":view,"raw":jb(&raw),"field":f,"value":val}));
                    }
                }
            }
        }
    }
    // --- validators
    for b0 in 0..=255u64 {
        for ver in 0..=17u64 {
            let raw = [b0 as u8, d.g.byte(), d.g.byte(), d.g.byte()];
            d.ex(json!({"op":"hdr_from_buf","view":"transport","raw":jb(&raw),"version":ver}));
        }
        for ver in [0x10 | (b0 & 0xF), 0xFF, 0x80] {
            d.ex(json!({"op":"hdr_from_buf","view":"transport","raw":[b0, 0, 0, 0],"version":ver}));
        }
    }
    // --- constructors
    for ver in 0..=255u64 {
        d.ex(json!({"op":"hdr_new","view":"transport","args":{"version":ver}}));
    }
    d.ex(json!({"op":"hdr_new","view":"smbus","args":{}}));
    for t in MSG_TYPE_VARIANTS.iter() {
        d.ex(json!({"op":"hdr_new","view":"body","args":{"msg_type":t}}));
    }
    for cmd in 0..=255u64 {
        for iid in [0u64, 1, 0x1F, 0x20, 0x3F, 0xFF, cmd] {
            let rq = d.g.below(2);
            let dd = d.g.below(2);
            d.ex(json!({"op":"hdr_new","view":"control","args":{"rq":rq,"d":dd,"instance_id":iid,"command_code":cmd}}));
        }
    }
    for et in 0..4u64 {
        for _ in 0..(if d.thorough { 400 } else { 40 }) {
            let b = d.g.bytes(3);
            d.ex(json!({"op":"hdr_new","view":"routing","args":{"entry_type":et,"eid_range_size":b[0],"first_eid":b[1],"physical_address":b[2]}}));
        }
    }
}

pub fn conv(d: &mut D) {
    let sweep = |d: &mut D, rev: bool| {
        for i in 0..=255u64 {
            let b = if rev { 255 - i } else { i };
            d.ex(json!({"op":"conv","enum":"command","byte":b}));
            d.ex(json!({"op":"conv","enum":"msgtype","byte":b}));
        }
        for i in 0..=5u64 {
            let b = if rev { 5 - i } else { i };
            d.ex(json!({"op":"conv","enum":"completion","byte":b}));
        }
    };
    // a fresh process: every byte once, in order
    sweep(d, false);
    // The conversions are functions of the byte alone: the same answers after the library has been busy, whatever
    // it was busy with.  Every command code arrives in a request (and in a response), every message type in a
    // packet, every completion code in a response; the byte just seen, its neighbours and the same byte twice are
    // converted right afterwards.
    d.std_ctxs();
    let pkt = |ty: u8, body: &[u8]| -> Vec<u8> {
        let mut p = vec![0x23u8 << 1, 0x0F, 0, (0x10 << 1) | 1, 0x01, 0x23, 0x10, 0xC8, ty];
        p.extend_from_slice(body);
        p.push(0);
        p[2] = (p.len() - 4) as u8;
        crate::drivers::fix_pec(&mut p);
        p
    };
    for b in 0..=255u64 {
        let cmd = b as u8;
        let data: &[u8] = match cmd {
            1 => &[0, 9],
            4 | 6 | 7 => &[0],
            8 => &[0, 1, 2],
            _ => &[],
        };
        let mut body = vec![0x80 | (cmd & 0x1F), cmd];
        body.extend_from_slice(data);
        let rq = pkt(0x00, &body);
        d.process(0, &rq);
        d.ex(json!({"op":"conv","enum":"command","byte":b}));
        d.ex(json!({"op":"conv","enum":"command","byte":b}));
        d.ex(json!({"op":"conv","enum":"command","byte":(b + 1) % 256}));
        let rs = pkt(0x00, &[cmd & 0x1F, cmd, (b % 6) as u8, 0, 0, 0]);
        d.decode(1, &rs);
        d.ex(json!({"op":"conv","enum":"completion","byte":b % 6}));
        d.ex(json!({"op":"conv","enum":"command","byte":b}));
        let other = pkt(cmd, &[1, 2, 3, 4, 5, 6]);
        d.process(0, &other);
        d.ex(json!({"op":"conv","enum":"msgtype","byte":b}));
        d.ex(json!({"op":"conv","enum":"msgtype","byte":b}));
        d.ex(json!({"op":"conv","enum":"msgtype","byte":(b + 128) % 256}));
    }
    // ... and every byte again, in the opposite order
    sweep(d, true);
}
