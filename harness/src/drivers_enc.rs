//! Driver families for the transmit side: request / response / vendor / SPDM encoders
//! (properties C01, C03-C08, C16).

use crate::drivers::*;
use serde_json::{json, Value};

/// After a successful encode: decode exactly the encoded bytes.  `wide` decodes on all three
/// standard contexts and runs the request processor as well.
fn check_pkt(d: &mut D, p: &[u8], k: usize) {
    if p.is_empty() {
        return;
    }
    if k % 32 == 5 && p.len() > 8 {
        // a receiving context whose own EID / address is related to the packet: EID equal to the
        // packet's source or destination EID, address equal to the source
        d.new_ctx(31, p[6], &[0x7E], &[(0, [0, 0, 0x12, 0x34], [0, 0xAB])]);
        for e in [p[6], p[5]] {
            d.ex(json!({"op":"set_eid","ctx":31,"half":"req","eid":e}));
            d.ex(json!({"op":"set_eid","ctx":31,"half":"resp","eid":e}));
            d.decode(31, p);
        }
        d.process(31, p);
    }
    if k % 8 == 0 {
        for c in 0..3 {
            d.decode(c, p);
        }
        d.process(k as u64 % 3, p);
    } else {
        d.decode(k as u64 % 3, p);
    }
}

/// Issue the same encoder call with several buffer capacities and poisons (C16): first into a
/// large buffer to learn the length, then exact, +1 and +17.
fn enc_variants(d: &mut D, base: &Value) -> Vec<u8> {
    let mut c = base.clone();
    c["buf_len"] = json!(300);
    c["poison"] = json!(d.poison());
    let e = d.ex(c);
    let p = pkt_of(&e);
    if !p.is_empty() {
        for extra in [0usize, 1, 17] {
            let mut c = base.clone();
            c["buf_len"] = json!(p.len() + extra);
            c["poison"] = json!(d.poison());
            d.ex(c);
        }
    } else {
        // refused (or panicked): same call again into a different buffer
        let mut c = base.clone();
        c["buf_len"] = json!(41);
        c["poison"] = json!(d.poison());
        d.ex(c);
    }
    p
}

fn req_cmd(ctx: u64, name: &str, args: Value) -> Value {
    json!({"op":"enc_req","ctx":ctx,"name":name,"args":args})
}

fn resp_cmd(ctx: u64, name: &str, args: Value) -> Value {
    json!({"op":"enc_resp","ctx":ctx,"name":name,"args":args})
}

/// Names of the byte-valued parameters of each request encoder.
fn byte_params(name: &str) -> &'static [&'static str] {
    match name {
        "set_endpoint_id" => &["eid"],
        "get_vendor_defined_message_support" => &["selector"],
        "resolve_endpoint_id" => &["eid"],
        "allocate_endpoint_ids" => &["pool_size", "first_eid"],
        "get_routing_table_entries" => &["handle"],
        "query_hop" => &["eid"],
        "resolve_uuid" => &["handle"],
        _ => &[],
    }
}

/// Make the byte parameters of an argument record pairwise distinct so that swaps show.
fn distinct_args(d: &mut D, name: &str, dst: u8) -> Value {
    loop {
        let a = d.rand_req_args(name, dst);
        let ps = byte_params(name);
        let mut vals: Vec<u64> = ps.iter().map(|p| a[*p].as_u64().unwrap()).collect();
        if let Some(o) = a.get("operation") {
            vals.push(o.as_u64().unwrap());
        }
        let n = vals.len();
        vals.sort();
        vals.dedup();
        if vals.len() == n {
            return a;
        }
    }
}

/// One field of an argument record changed, the others left as they are (None when the field has no other value).
fn field_variant(key: &str, v: &Value, salt: u64) -> Option<Value> {
    if let Some(x) = v.as_u64() {
        let nv = match key {
            "cc" => (x + 1 + salt % 5) % 6,
            "assignment" | "endpoint_type" | "fairness" => 1 - (x & 1),
            "allocation" => (x + 1 + salt % 2) % 3,
            "id_type" => (x + 1 + salt % 3) % 4,
            "operation" => (x + 1 + salt % 2) % 3,
            "query" => VERSION_QUERIES[((VERSION_QUERIES.iter().position(|q| *q == x).unwrap_or(0) as u64 + 1 + salt % 4) % 5) as usize],
            "msg_type" => MSG_TYPE_VARIANTS[((MSG_TYPE_VARIANTS.iter().position(|q| *q == x).unwrap_or(0) as u64 + 1 + salt % 5) % 6) as usize],
            "dst" => x ^ [0x01u64, 0x80, 0x40, 0x7F][(salt % 4) as usize],
            _ => (x ^ (1 << (salt % 8))) & 0xFF,
        };
        return Some(json!(nv));
    }
    if let Some(a) = v.as_array() {
        if a.is_empty() {
            return None;
        }
        let mut a = a.clone();
        let i = (salt as usize) % a.len();
        if let Some(x) = a[i].as_u64() {
            a[i] = json!(x ^ 0x10);
        } else if let Some(inner) = a[i].as_array() {
            let mut inner = inner.clone();
            if inner.is_empty() {
                return None;
            }
            let j = (salt as usize / 7) % inner.len();
            inner[j] = json!(inner[j].as_u64().unwrap_or(0) ^ 0x10);
            a[i] = Value::Array(inner);
        }
        return Some(Value::Array(a));
    }
    None
}

/// Receive-path activity on a context that is about to encode: an encoder's output is a function of its arguments
/// (and the stored EID) - not of what the context has received, decoded or answered before.
fn stir(d: &mut D, ctx: u64, addr: u8) {
    let mk = |cmd: u8, iid: u8, flags: u8, data: &[u8]| -> Vec<u8> {
        let mut p = vec![addr << 1, 0x0F, 0, (0x31 << 1) | 1, 0x01, addr, 0x31, flags, 0x00, 0x80 | iid, cmd];
        p.extend_from_slice(data);
        p.push(0);
        p[2] = (p.len() - 4) as u8;
        crate::drivers::fix_pec(&mut p);
        p
    };
    let iid = 1 + d.g.below(31) as u8;
    let tag = 1 + d.g.below(7) as u8;
    let eid = 1 + d.g.below(254) as u8;
    let pkts = [
        mk(1, iid, 0xC8 | tag, &[0, eid]),
        mk(3, (iid + 7) & 0x1F, 0xC8, &[]),
        mk(6, iid, 0xC8 | tag, &[0]),
        mk(9, iid, 0xC8, &[]),
    ];
    for p in pkts.iter() {
        d.process(ctx, p);
    }
    let mut r = mk(2, 0, 0xC0, &[0, 0x44, 0, 0]);
    r[9] = iid; // a response (Rq = 0) from a peer
    crate::drivers::fix_pec(&mut r);
    d.decode(ctx, &r);
    d.get_length(ctx, &pkts[0][..3]);
    let mut bad = pkts[1].clone();
    bad[5] ^= 0x10;
    d.process(ctx, &bad);
}

/// An encoder is a function of its arguments (and the stored EID): call it with A, then with A changed in exactly
/// one field, then with A again - for every field, on one context, with nothing in between.  Whatever an encoder
/// keeps from one call to the next must not show in the bytes of the next.
fn one_field_walk(d: &mut D, is_resp: bool, ctx: u64, name: &str, base: &Value, k: &mut usize) {
    let call = |d: &mut D, a: &Value, k: &mut usize| {
        let p = if is_resp { d.enc_resp(ctx, name, a.clone()) } else { d.enc_req(ctx, name, a.clone()) };
        *k += 1;
        check_pkt(d, &p, *k * 16 + 1); // decoded rarely: the point is the encoder's own history
    };
    call(d, base, k);
    let keys: Vec<String> = base.as_object().map(|o| o.keys().cloned().collect()).unwrap_or_default();
    for key in keys {
        let salt = d.g.below(1 << 20);
        if let Some(nv) = field_variant(&key, &base[&key], salt) {
            let mut a = base.clone();
            a[&key] = nv;
            call(d, &a, k);
            call(d, base, k);
        }
    }
}

pub fn requests(d: &mut D) {
    d.std_ctxs();
    let mut k = 0usize;
    // sending contexts with assorted addresses
    let addrs: [u8; 5] = [0x00, 0x01, 0x34, 0x55, 0x7F];
    for (i, a) in addrs.iter().enumerate() {
        d.new_ctx(10 + i as u64, *a, &[], &[(0, [0, 0, 0, 1], [0, 0])]);
    }
    for name in REQ_NAMES.iter() {
        // every value of every byte parameter, the others random and distinct
        let reps = if d.thorough { 8 } else { 1 };
        for par in byte_params(name) {
            for v in (0..=255u64).cycle().take(256 * reps) {
                let ctx = 10 + (v % 5);
                let dst = d.g.byte() & 0x7F;
                let mut a = distinct_args(d, name, dst);
                a[*par] = json!(v);
                let mut c = req_cmd(ctx, name, a);
                c["buf_len"] = json!(64 + (v % 7));
                c["poison"] = json!(d.poison());
                let e = d.ex(c);
                k += 1;
                check_pkt(d, &pkt_of(&e), k);
            }
        }
        // relational values: a parameter equal to something else the encoder can see - the context's own
        // address, the EID stored in either half, the destination, another parameter
        d.new_ctx(30, 0x3C, &[], &[(0, [0, 0, 0, 1], [0, 0])]);
        for (er, es) in [(0x4Au64, 0x4A), (0x4A, 0x2D), (0, 0x4A), (0x3C, 0x3C)] {
            d.ex(json!({"op":"set_eid","ctx":30,"half":"req","eid":er}));
            d.ex(json!({"op":"set_eid","ctx":30,"half":"resp","eid":es}));
            for dst in [0x3Cu64, 0x4A, 0x2D, 0x11] {
                let specials = [er, es, 0x3C, dst, dst + 1, er + 1, 0x0F, 0xC8];
                let ps = byte_params(name);
                if ps.is_empty() {
                    let a = d.rand_req_args(name, dst as u8);
                    let p = d.enc_req(30, name, a);
                    k += 1;
                    check_pkt(d, &p, k);
                }
                for par in ps {
                    for v in specials {
                        let mut a = d.rand_req_args(name, dst as u8);
                        a[*par] = json!(v & 0xFF);
                        // and every other byte parameter equal to it as well, half of the time
                        if d.g.chance(1, 2) {
                            for q in ps {
                                a[*q] = json!(v & 0xFF);
                            }
                        }
                        let p = d.enc_req(30, name, a);
                        k += 1;
                        check_pkt(d, &p, k);
                    }
                }
            }
        }
        // every enum variant
        let variants: Vec<Value> = match *name {
            "set_endpoint_id" => (0..4).map(|o| json!({"operation":o})).collect(),
            "get_mctp_version_support" => VERSION_QUERIES.iter().map(|q| json!({"query":q})).collect(),
            "allocate_endpoint_ids" => (0..3).map(|o| json!({"operation":o})).collect(),
            "query_hop" => MSG_TYPE_VARIANTS.iter().map(|t| json!({"msg_type":t})).collect(),
            _ => vec![],
        };
        for v in variants {
            for rep in 0..3 {
                let dst = d.g.byte() & 0x7F;
                let mut a = distinct_args(d, name, dst);
                for (kk, vv) in v.as_object().unwrap() {
                    a[kk] = vv.clone();
                }
                let p = enc_variants(d, &req_cmd(10 + rep, name, a));
                k += 1;
                check_pkt(d, &p, k * 8);
            }
        }
        // all 256 destination values
        for dst in (0..=255u64).cycle().take(256 * reps) {
            let a = d.rand_req_args(name, dst as u8);
            let p = d.enc_req(10 + (dst % 5), name, a);
            k += 1;
            check_pkt(d, &p, k);
        }
        // documented-invalid and boundary arguments
        if *name == "set_endpoint_id" {
            for eid in [0u64, 1, 0xFE, 0xFF] {
                for op in 0..4 {
                    enc_variants(d, &req_cmd(11, name, json!({"dst":0x23,"operation":op,"eid":eid})));
                }
            }
        }
        if *name == "routing_information_update" {
            for n in 0..=9usize {
                for rep in 0..(if d.thorough { 60 } else { 10 }) {
                    // structured lists: independent entries, and lists whose entries are copies or
                    // single-byte variations of their neighbour (related elements, not only random ones)
                    let mut raw: Vec<Vec<u8>> = Vec::new();
                    let pool: [u8; 10] = [0x51, 0x34, 0, 1, 2, 3, 0xFF, 0x0F, 0x80, 0x7F]; // dst, own address, enum values, ...
                    for i in 0..n {
                        let e = if rep % 3 == 2 {
                            // fields related to the call itself: destination, own address, small enum values
                            (0..4).map(|_| if d.g.chance(3, 4) { *d.g.pick(&pool) } else { d.g.byte() }).collect()
                        } else if rep % 2 == 0 || i == 0 {
                            d.g.bytes(4)
                        } else {
                            let mut prev = raw[i - 1].clone();
                            match d.g.below(4) {
                                0 => {}
                                _ => {
                                    let k = d.g.below(4) as usize;
                                    prev[k] = if d.g.chance(1, 2) { prev[k].wrapping_add(1) } else { d.g.byte() };
                                }
                            }
                            prev
                        };
                        raw.push(e);
                    }
                    let es: Vec<Value> = raw.iter().map(|e| jb(e)).collect();
                    let p = enc_variants(d, &req_cmd(12, name, json!({"dst":0x51,"entries":es})));
                    if rep % 3 == 2 && n >= 1 {
                        // ... and the all-related extreme: every field of an entry equal to the destination
                        for t in 0..4u8 {
                            let mut es2: Vec<Value> = raw.iter().map(|e| jb(e)).collect();
                            es2[(rep / 3) % n] = jb(&[t, 0x51, 0x51, 0x51]);
                            let p2 = d.enc_req(12, name, json!({"dst":0x51,"entries":es2}));
                            k += 1;
                            check_pkt(d, &p2, k);
                        }
                    }
                    k += 1;
                    check_pkt(d, &p, k * 8);
                }
            }
        }
        if *name == "resolve_uuid" {
            let mut uuids: Vec<Vec<u8>> = vec![vec![0; 16], vec![0xFF; 16], (0..16).collect()];
            for _ in 0..(if d.thorough { 300 } else { 30 }) {
                uuids.push(d.g.bytes(16));
            }
            for u in uuids {
                let h = d.g.byte();
                let p = enc_variants(d, &req_cmd(13, name, json!({"dst":0x23,"uuid":jb(&u),"handle":h})));
                k += 1;
                check_pkt(d, &p, k * 8);
            }
        }
        // random
        for _ in 0..(if d.thorough { 2000 } else { 60 }) {
            let dst = d.g.byte();
            let a = d.rand_req_args(name, dst);
            let ctx = 10 + d.g.below(5);
            let p = d.enc_req(ctx, name, a);
            k += 1;
            check_pkt(d, &p, k);
        }
    }
    // every source address: a fresh sending context per address
    for src in 0..=255u64 {
        d.new_ctx(20, src as u8, &[], &[(0, [0, 0, 0, 1], [0, 0])]);
        let names: Vec<&str> = if d.thorough {
            REQ_NAMES.to_vec()
        } else {
            vec![REQ_NAMES[(src % 17) as usize], "get_endpoint_id"]
        };
        for name in names {
            let dst = d.g.byte() & 0x7F;
            let a = d.rand_req_args(name, dst);
            let p = d.enc_req(20, name, a);
            k += 1;
            check_pkt(d, &p, k);
        }
    }
    // every request encoder right after the encoding context has been busy receiving
    for rep in 0..(if d.thorough { 12 } else { 2 }) {
        for name in REQ_NAMES.iter() {
            if rep % 2 == 0 || d.g.chance(1, 2) {
                stir(d, 12, 0x34);
            }
            let dst = d.g.byte();
            let a = d.rand_req_args(name, dst);
            let p = d.enc_req(12, name, a);
            k += 1;
            check_pkt(d, &p, k);
        }
    }
    // request and response of the same command, encoded and decoded back to back on the same contexts
    for rep in 0..(if d.thorough { 10 } else { 2 }) {
        for name in RESP_NAMES.iter() {
            let dst = d.g.byte() & 0x7F;
            let a = d.rand_req_args(name, dst);
            let b = d.rand_resp_args(name, dst, 0);
            let rc = 1 + (rep % 2) as u64;
            if rep % 2 == 0 {
                let p = d.enc_req(12, name, a);
                d.decode(rc, &p);
                let q = d.enc_resp(12, name, b);
                d.decode(rc, &q);
            } else {
                let q = d.enc_resp(12, name, b);
                d.decode(rc, &q);
                let p = d.enc_req(12, name, a);
                d.decode(rc, &p);
            }
        }
    }
    // one field at a time, on one context, nothing in between
    for name in REQ_NAMES.iter() {
        for _ in 0..(if d.thorough { 40 } else { 4 }) {
            let dst = d.g.byte();
            let a = d.rand_req_args(name, dst);
            one_field_walk(d, false, 12, name, &a, &mut k);
        }
    }
}

pub fn responses(d: &mut D) {
    d.std_ctxs();
    let mut k = 0usize;
    d.new_ctx(10, 0x2A, &[], &[(0, [0, 0, 0, 1], [0, 0])]);
    for name in RESP_NAMES.iter() {
        // every completion code x every enum combination
        for cc in 0..6u64 {
            let combos: Vec<Value> = match *name {
                "set_endpoint_id" => {
                    let mut v = vec![];
                    for a in 0..2 {
                        for b in 0..3 {
                            v.push(json!({"assignment":a,"allocation":b}));
                        }
                    }
                    v
                }
                "get_endpoint_id" => {
                    let mut v = vec![];
                    for a in 0..2 {
                        for b in 0..4 {
                            for f in 0..2 {
                                v.push(json!({"endpoint_type":a,"id_type":b,"fairness":f}));
                            }
                        }
                    }
                    v
                }
                _ => vec![json!({})],
            };
            let creps = if d.thorough { 12 } else { 1 };
            for c in combos.iter().cycle().take(combos.len() * creps) {
                let dst = d.g.byte() & 0x7F;
                let mut a = d.rand_resp_args(name, dst, cc);
                for (kk, vv) in c.as_object().unwrap() {
                    a[kk] = vv.clone();
                }
                // a stored EID so that the EID field is distinguishable from zero
                let eid = d.g.byte();
                d.ex(json!({"op":"set_eid","ctx":10,"half":"resp","eid":eid}));
                let p = enc_variants(d, &resp_cmd(10, name, a));
                k += 1;
                check_pkt(d, &p, k * 8);
            }
        }
        // all 256 destinations
        for dst in (0..=255u64).cycle().take(if d.thorough { 256 * 6 } else { 256 }) {
            let a = d.rand_resp_args(name, dst as u8, if dst % 4 == 3 { 1 + dst % 5 } else { 0 });
            let p = d.enc_resp(10, name, a);
            k += 1;
            check_pkt(d, &p, k);
        }
    }
    // every EID value stored in the context, through the accessor and through an assignment
    for eid in 0..=255u64 {
        if eid % 2 == 0 || eid == 0 || eid == 255 {
            d.ex(json!({"op":"set_eid","ctx":10,"half":"resp","eid":eid}));
        } else {
            let set = d.enc_req(1, "set_endpoint_id", json!({"dst":0x2A,"operation":eid % 2,"eid":eid}));
            d.process(10, &set);
        }
        let names: Vec<&str> = if d.thorough { RESP_NAMES.to_vec() } else { vec!["set_endpoint_id", "get_endpoint_id"] };
        for name in names {
            let a = d.rand_resp_args(name, 0x33, 0);
            let p = d.enc_resp(10, name, a);
            k += 1;
            check_pkt(d, &p, k);
        }
    }
    // message type lists of every length 0..32
    for n in 0..=32usize {
        for _ in 0..(if d.thorough { 30 } else { 4 }) {
            let t = d.g.bytes(n);
            let cc = if d.g.chance(1, 5) { 3 } else { 0 };
            let p = enc_variants(d, &resp_cmd(10, "get_message_type_suport", json!({"dst":0x11,"cc":cc,"types":jb(&t)})));
            k += 1;
            check_pkt(d, &p, k * 8);
        }
    }
    // vendor id fields of 0..7 bytes, every selector
    for n in 0..=7usize {
        for sel in (0..=255u64).step_by(if d.thorough { 1 } else { 5 }) {
            let v = d.g.bytes(n);
            let p = d.enc_resp(10, "get_vendor_defined_message_support", json!({"dst":0x11,"cc":0,"selector":sel,"vid":jb(&v)}));
            k += 1;
            check_pkt(d, &p, k);
        }
    }
    // UUIDs
    let mut uuids: Vec<Vec<u8>> = vec![vec![0; 16], vec![0xFF; 16], (0..16).collect()];
    for _ in 0..(if d.thorough { 500 } else { 40 }) {
        uuids.push(d.g.bytes(16));
    }
    for u in uuids {
        let p = enc_variants(d, &resp_cmd(10, "get_endpoint_uuid", json!({"dst":0x11,"cc":0,"uuid":jb(&u)})));
        k += 1;
        check_pkt(d, &p, k * 8);
    }
    // every source address
    for src in 0..=255u64 {
        d.new_ctx(20, src as u8, &[], &[(0, [0, 0, 0, 1], [0, 0])]);
        let name = RESP_NAMES[(src % 6) as usize];
        let dst = d.g.byte() & 0x7F;
        let a = d.rand_resp_args(name, dst, 0);
        let p = d.enc_resp(20, name, a);
        k += 1;
        check_pkt(d, &p, k);
    }
    // every response encoder right after the encoding context has been busy receiving
    for rep in 0..(if d.thorough { 12 } else { 2 }) {
        for name in RESP_NAMES.iter() {
            if rep % 2 == 0 || d.g.chance(1, 2) {
                stir(d, 10, 0x2A);
            }
            let dst = d.g.byte();
            let a = d.rand_resp_args(name, dst, 0);
            let p = d.enc_resp(10, name, a);
            k += 1;
            check_pkt(d, &p, k);
        }
    }
    // one field at a time, on one context, nothing in between (no accessor call either)
    for name in RESP_NAMES.iter() {
        for _ in 0..(if d.thorough { 60 } else { 6 }) {
            let dst = d.g.byte();
            let cc = if d.g.chance(1, 3) { d.g.below(6) } else { 0 };
            let a = d.rand_resp_args(name, dst, cc);
            one_field_walk(d, true, 10, name, &a, &mut k);
        }
    }
}

fn vendor_args(dst: u8, format: u64, data: &[u8], num: u64, msg: &[u8]) -> Value {
    json!({"dst":dst,"format":format,"data":jb(data),"num":num,"msg":jb(msg)})
}

pub fn vendor(d: &mut D) {
    d.std_ctxs();
    let mut k = 0usize;
    d.new_ctx(10, 0x19, &[], &[(0, [0, 0, 0, 1], [0, 0])]);
    // PCI identifiers: all 65536 in the thorough tier, a stratified 4k slice otherwise
    for hi in 0..=255u64 {
        let lows: Vec<u64> = if d.thorough {
            (0..=255).collect()
        } else {
            let mut v = vec![0, 1, 0x7F, 0x80, 0xFF, hi, 255 - hi];
            for _ in 0..9 {
                v.push(d.g.byte() as u64);
            }
            v
        };
        for lo in lows {
            // upper 16 bits of the 32-bit field are not part of a PCI id: vary them too
            let up = if lo % 3 == 0 { d.g.bytes(2) } else { vec![0, 0] };
            let n = d.g.below(4) as usize;
            let msg = d.g.bytes(n);
            let dst = d.g.byte() & 0x7F;
            let num = d.g.below(65536);
            let p = d.enc_vendor(10, vendor_args(dst, 0, &[up[0], up[1], hi as u8, lo as u8], num, &msg), 40);
            k += 1;
            check_pkt(d, &p, k);
        }
    }
    // IANA numbers: per-byte sweeps and random
    for pos in 0..4usize {
        for v in 0..=255u64 {
            let mut id = d.g.bytes(4);
            id[pos] = v as u8;
            let n = d.g.below(4) as usize;
            let msg = d.g.bytes(n);
            let dst = d.g.byte() & 0x7F;
            let p = d.enc_vendor(10, vendor_args(dst, 1, &id, 0, &msg), 40);
            k += 1;
            check_pkt(d, &p, k);
        }
    }
    for id in [[0u8, 0, 0, 0], [0xFF, 0xFF, 0xFF, 0xFF], [0x80, 0, 0, 0], [0, 0, 0, 1], [0x12, 0x34, 0x56, 0x78]] {
        let p = enc_variants(d, &json!({"op":"enc_vendor","ctx":10,"args":vendor_args(0x22, 1, &id, 7, &[1, 2, 3])}));
        k += 1;
        check_pkt(d, &p, k * 8);
    }
    for _ in 0..(if d.thorough { 20000 } else { 300 }) {
        let id = d.g.bytes(4);
        let n = d.g.below(12) as usize;
        let msg = d.g.bytes(n);
        let dst = d.g.byte();
        let num = d.g.below(65536);
        let p = d.enc_vendor(10, vendor_args(dst, 1, &id, num, &msg), 64);
        k += 1;
        check_pkt(d, &p, k);
    }
    // vendor messages right after the encoding context has been busy receiving
    for rep in 0..(if d.thorough { 40 } else { 6 }) {
        stir(d, 10, 0x19);
        let id = d.g.bytes(4);
        let n = d.g.below(12) as usize;
        let msg = d.g.bytes(n);
        let dst = d.g.byte();
        let p = d.enc_vendor(10, vendor_args(dst, (rep % 2) as u64, &id, 5, &msg), 64);
        k += 1;
        check_pkt(d, &p, k);
    }
    // payloads related to the packet they travel in: beginning with the vendor id, the message type byte,
    // the addresses, a copy of the packet's own header
    for fmt in 0..2u64 {
        for rep in 0..(if d.thorough { 200 } else { 24 }) {
            let id = if fmt == 0 { let b = d.g.bytes(2); vec![0, 0, b[0], b[1]] } else { d.g.bytes(4) };
            let dst = d.g.byte() & 0x7F;
            let tail_n = d.g.below(9) as usize;
            let tail = d.g.bytes(tail_n);
            let mut msg: Vec<u8> = match rep % 6 {
                0 => id.clone(),
                1 => id[2..].to_vec(),
                2 => {
                    // the message type byte followed by the identifier exactly as it appears on the wire
                    let mut m = vec![if fmt == 0 { 0x7Eu8 } else { 0x7F }];
                    m.extend_from_slice(if fmt == 0 { &id[2..] } else { &id[..] });
                    m
                }
                3 => vec![dst << 1, 0x0F, 9, (0x19 << 1) | 1, 1, dst, 0x19, 0xC8],
                4 => id.iter().rev().cloned().collect(),
                _ => vec![dst, 0x19, dst, 0x19],
            };
            if rep % 12 >= 6 || rep % 6 == 3 {
                msg.extend_from_slice(&tail);
            }
            let p = d.enc_vendor(10, vendor_args(dst, fmt, &id, 0, &msg), 64);
            k += 1;
            check_pkt(d, &p, k * 8);
        }
    }
    // a sending context that has been given an EID; destinations equal to that EID, to its address, others
    d.new_ctx(32, 0x3C, &[], &[(0, [0, 0, 0, 1], [0, 0])]);
    for (er, es) in [(0x4Au64, 0x4A), (0x4A, 0x2D), (0, 0x4A), (0x3C, 0x3C), (0xFF, 0xFF)] {
        d.ex(json!({"op":"set_eid","ctx":32,"half":"req","eid":er}));
        d.ex(json!({"op":"set_eid","ctx":32,"half":"resp","eid":es}));
        for dst in [0x4Au8, 0x2D, 0x3C, 0x11, 0xFF, 0x00] {
            for fmt in 0..2u64 {
                let id = d.g.bytes(4);
                let msg = d.g.bytes(3);
                let p = d.enc_vendor(32, vendor_args(dst, fmt, &id, 0, &msg), 40);
                k += 1;
                check_pkt(d, &p, k);
            }
            for half in ["req", "resp"] {
                for kind in ["pci", "iana", "spdm", "secured"] {
                    let data = d.g.bytes(4);
                    let p = d.enc_gen(32, half, kind, json!({"dst":dst,"has_hdr":0,"hdr":[],"data":jb(&data)}), 40);
                    k += 1;
                    check_pkt(d, &p, k);
                }
            }
        }
    }
    // every format byte
    for f in 0..=255u64 {
        let id = d.g.bytes(4);
        let msg = d.g.bytes(3);
        enc_variants(d, &json!({"op":"enc_vendor","ctx":10,"args":vendor_args(0x22, f, &id, 0, &msg)}));
    }
    // bodies of every length the frame can carry, and beyond
    for fmt in 0..2u64 {
        let step = if d.thorough { 1 } else { 7 };
        let mut lens: Vec<usize> = (0..=262).step_by(step).collect();
        lens.extend_from_slice(&[240, 241, 242, 243, 244, 245, 246, 247, 248, 249, 250, 251, 252]);
        for n in lens {
            let msg = d.g.bytes(n);
            let id = d.g.bytes(4);
            let p = d.enc_vendor(10, vendor_args(0x31, fmt, &id, 0, &msg), 300);
            k += 1;
            check_pkt(d, &p, k);
        }
    }
    // the generic writers on both halves, with and without the optional header
    for half in ["req", "resp"] {
        for kind in ["pci", "iana", "spdm", "secured", "control"] {
            for (has, hl) in [(0u64, 0usize), (1, 0), (1, 1), (1, 2), (1, 4), (1, 9)] {
                for _ in 0..(if d.thorough { 40 } else { 5 }) {
                    let hdr = d.g.bytes(hl);
                    let n = d.g.below(20) as usize;
                    let data = d.g.bytes(n);
                    let dst = d.g.byte() & 0x7F;
                    let p = enc_variants(
                        d,
                        &json!({"op":"enc_gen","ctx":10,"half":half,"kind":kind,
                               "args":{"dst":dst,"has_hdr":has,"hdr":jb(&hdr),"data":jb(&data)}}),
                    );
                    k += 1;
                    if kind != "control" {
                        check_pkt(d, &p, k * 8);
                    }
                }
            }
        }
    }
}

/// Every total length from the minimum to beyond the SMBus limit, for every message kind
/// (C03, C04, C16), with random bodies, and all address pairs on the row/column/diagonal
/// (quick) or the full 128 x 128 square (thorough).
pub fn lengths(d: &mut D) {
    d.std_ctxs();
    let mut k = 0usize;
    d.new_ctx(10, 0x46, &[], &[(0, [0, 0, 0, 1], [0, 0])]);
    for kind in ["pci", "iana", "spdm", "secured", "control"] {
        for n in 0..=270usize {
            let hl = if n % 3 == 0 { 0 } else { (n % 5).min(n) };
            let hdr = d.g.bytes(hl);
            let data = d.g.bytes(n - hl);
            let half = if n % 2 == 0 { "req" } else { "resp" };
            let total = 10 + n;
            let bl = total + [0usize, 1, 30][n % 3];
            let p = d.enc_gen(
                10,
                half,
                kind,
                json!({"dst":0x23 + (n as u64 % 50),"has_hdr": if hl > 0 || n % 2 == 1 {1} else {0},"hdr":jb(&hdr),"data":jb(&data)}),
                bl,
            );
            k += 1;
            if kind != "control" {
                check_pkt(d, &p, k);
                if total >= 250 && !p.is_empty() {
                    d.process(0, &p);
                }
            }
        }
    }
    // optional header length x data length around the frame limit, every kind, both halves
    for kind in ["pci", "iana", "spdm", "secured", "control"] {
        for hl in 0..=9usize {
            for dl in 236..=252usize {
                if !d.thorough && (hl + dl) % 2 == 1 && hl + dl < 244 {
                    continue;
                }
                let hdr = d.g.bytes(hl);
                let data = d.g.bytes(dl);
                let half = if (hl + dl) % 2 == 0 { "req" } else { "resp" };
                let p = d.enc_gen(10, half, kind, json!({"dst":0x2B,"has_hdr":1,"hdr":jb(&hdr),"data":jb(&data)}), 300);
                k += 1;
                if kind != "control" && k % 8 == 0 {
                    check_pkt(d, &p, k);
                }
            }
        }
    }
    // address pairs
    let pairs: Vec<(u8, u8)> = if d.thorough {
        let mut v = vec![];
        for s in 0..128u8 {
            for t in 0..128u8 {
                v.push((s, t));
            }
        }
        v
    } else {
        let mut v = vec![];
        for x in 0..128u8 {
            v.push((x, 0x23));
            v.push((0x23, x));
            v.push((x, x));
            v.push((x, 127 - x));
        }
        v
    };
    let mut cur: i32 = -1;
    for (s, t) in pairs {
        if cur != s as i32 {
            d.new_ctx(21, s, &[], &[(0, [0, 0, 0, 1], [0, 0])]);
            cur = s as i32;
        }
        k += 1;
        let p = match k % 4 {
            0 => {
                let name = REQ_NAMES[k % 17];
                let a = d.rand_req_args(name, t);
                d.enc_req(21, name, a)
            }
            1 => {
                let name = RESP_NAMES[k % 6];
                let a = d.rand_resp_args(name, t, 0);
                d.enc_resp(21, name, a)
            }
            2 => {
                let id = d.g.bytes(4);
                let msg = d.g.bytes(k % 6);
                d.enc_vendor(21, vendor_args(t, (k as u64 / 4) % 2, &id, 0, &msg), 48)
            }
            _ => {
                let data = d.g.bytes(k % 9);
                d.enc_gen(21, "req", if k % 8 == 3 { "spdm" } else { "secured" }, json!({"dst":t,"has_hdr":0,"hdr":[],"data":jb(&data)}), 48)
            }
        };
        if k % 16 == 0 {
            check_pkt(d, &p, k);
        }
    }
}

/// All 256 destination values x all 256 context addresses for one encoder per message type
/// (thorough), row and column otherwise (C05).
pub fn hdr_sweep(d: &mut D) {
    d.std_ctxs();
    let srcs: Vec<u64> = if d.thorough { (0..=255).collect() } else { vec![0, 1, 0x23, 0x7F, 0x80, 0xA3, 0xFF] };
    let mut k = 0usize;
    for src in 0..=255u64 {
        d.new_ctx(22, src as u8, &[], &[(0, [0, 0, 0, 1], [0, 0])]);
        let dsts: Vec<u64> = if srcs.contains(&src) { (0..=255).collect() } else { vec![0, 0x34, 0x7F, 0x80, 0xFF, src] };
        for dst in dsts {
            d.ex(json!({"op":"gen_hdr","ctx":22,"half":if dst % 2 == 0 { "req" } else { "resp" },"dst":dst}));
            for which in 0..6 {
                k += 1;
                match which {
                    0 => {
                        d.enc_req(22, "get_endpoint_id", json!({"dst":dst}));
                    }
                    1 => {
                        d.enc_resp(22, "get_mctp_version_support", json!({"dst":dst,"cc":0}));
                    }
                    2 => {
                        d.enc_vendor(22, vendor_args(dst as u8, 0, &[0, 0, 0x12, 0x34], 0, &[9]), 32);
                    }
                    3 => {
                        d.enc_vendor(22, vendor_args(dst as u8, 1, &[1, 2, 3, 4], 0, &[]), 32);
                    }
                    4 => {
                        d.enc_gen(22, "req", "spdm", json!({"dst":dst,"has_hdr":0,"hdr":[],"data":[16,132]}), 32);
                    }
                    _ => {
                        d.enc_gen(22, "resp", "secured", json!({"dst":dst,"has_hdr":1,"hdr":[7],"data":[1]}), 32);
                    }
                }
            }
        }
    }
    let _ = k;
}
