//! Seeded driver families (impl -> spec direction).  Each family issues commands through the
//! Runner; every command and everything observed is recorded and judged later by TLC.
//!
//! Drivers may *forge* inputs (patch bytes of library-encoded packets and recompute the PEC with
//! the 10-line CRC below).  The CRC is only used to reach interesting inputs: expectations are
//! derived by the specification from the raw bytes in each event, so a bug here can lower
//! coverage but cannot change a verdict.

use crate::rng::Rng;
use crate::runner::{bytes, Runner};
use serde_json::{json, Value};

pub fn crc8(b: &[u8]) -> u8 {
    let mut r = 0u8;
    for x in b {
        r ^= *x;
        for _ in 0..8 {
            r = if r & 0x80 != 0 { (r << 1) ^ 7 } else { r << 1 };
        }
    }
    r
}

pub fn fix_pec(p: &mut Vec<u8>) {
    let n = p.len();
    if n >= 1 {
        p[n - 1] = crc8(&p[..n - 1]);
    }
}

pub fn jb(b: &[u8]) -> Value {
    Value::Array(b.iter().map(|x| json!(*x)).collect())
}

pub const REQ_NAMES: [&str; 17] = [
    "set_endpoint_id",
    "get_endpoint_id",
    "get_endpoint_uuid",
    "get_mctp_version_support",
    "get_message_type_suport",
    "get_vendor_defined_message_support",
    "resolve_endpoint_id",
    "allocate_endpoint_ids",
    "routing_information_update",
    "get_routing_table_entries",
    "prepare_for_endpoint_discovery",
    "endpoint_discovery",
    "discovery_notify",
    "get_network_id",
    "query_hop",
    "resolve_uuid",
    "query_rate_limit",
];

pub const RESP_NAMES: [&str; 6] = [
    "set_endpoint_id",
    "get_endpoint_id",
    "get_endpoint_uuid",
    "get_mctp_version_support",
    "get_message_type_suport",
    "get_vendor_defined_message_support",
];

pub const MSG_TYPE_VARIANTS: [u64; 6] = [0x00, 0x05, 0x06, 0x7E, 0x7F, 0xFF];
pub const VERSION_QUERIES: [u64; 5] = [0xFF, 0, 1, 2, 3];

pub struct D<'a> {
    pub r: &'a mut Runner,
    pub g: Rng,
    pub thorough: bool,
    /// Retransmissions (families that switch it on): a requester that got no answer sends the *same bytes* again,
    /// so the endpoint sees verbatim copies of recent packets - right after the original, after other traffic,
    /// and after its state was changed through an accessor.  Anything the library remembers about a packet
    /// (a cached response, a memoised check) must stay correct under that.
    pub echo: bool,
    recent: std::collections::BTreeMap<u64, Vec<Vec<u8>>>,
}

impl<'a> D<'a> {
    pub fn ex(&mut self, cmd: Value) -> Value {
        let v = self.r.exec(&cmd);
        if self.echo {
            // read - write - identical read: after a store through an accessor, the last packet the context
            // processed arrives again, byte for byte
            let op = cmd["op"].as_str().unwrap_or("");
            if op == "set_uuid" || op == "set_eid" {
                let c = cmd["ctx"].as_u64().unwrap_or(0);
                if let Some(p) = self.recent.get(&c).and_then(|r| r.last()).cloned() {
                    let poison = self.poison();
                    self.r.exec(&json!({"op":"process","ctx":c,"p":jb(&p),"rbuf_len":64,"poison":poison}));
                }
            }
        }
        v
    }

    fn remember(&mut self, ctx: u64, p: &[u8]) {
        let poison = self.poison();
        let ring = self.recent.entry(ctx).or_default();
        ring.push(p.to_vec());
        if ring.len() > 6 {
            ring.remove(0);
        }
        // one call in six is followed by a retransmission of one of the last six packets
        if poison % 6 == 0 {
            let k = (poison as usize / 6) % ring.len();
            let q = ring[k].clone();
            self.r.exec(&json!({"op":"process","ctx":ctx,"p":jb(&q),"rbuf_len":64,"poison":poison}));
        }
    }

    pub fn new_ctx(&mut self, ctx: u64, addr: u8, mts: &[u8], vids: &[(u8, [u8; 4], [u8; 2])]) {
        let v: Vec<Value> = vids
            .iter()
            .map(|(f, d, n)| json!({"format": f, "data": jb(d), "num": jb(n)}))
            .collect();
        self.ex(json!({"op":"new","ctx":ctx,"addr":addr,"msg_types":jb(mts),"vendor_ids":v}));
    }

    /// The three standard receiving contexts: fresh, differently configured, and one with history.
    pub fn std_ctxs(&mut self) {
        self.new_ctx(0, 0x23, &[0x7E], &[(0, [0, 0, 0x12, 0x34], [0, 0xAB])]);
        self.new_ctx(
            1,
            0x51,
            &[0x05, 0x06, 0x7E, 0x7F],
            &[(1, [0, 0, 0x01, 0x9D], [1, 2]), (0, [0, 0, 0x14, 0x14], [0, 4])],
        );
        self.new_ctx(2, 0x7F, &[], &[(0, [0, 0, 0xFF, 0xFF], [0xFF, 0xFF])]);
        // give context 2 some history: an accepted assignment, a UUID, a few queries
        let set = self.enc_req(1, "set_endpoint_id", json!({"dst":0x7F,"operation":0,"eid":0x42}));
        self.process(2, &set);
        let u = self.g.bytes(16);
        self.ex(json!({"op":"set_uuid","ctx":2,"uuid":jb(&u)}));
        let q = self.enc_req(1, "get_endpoint_uuid", json!({"dst":0x7F}));
        self.process(2, &q);
    }

    pub fn poison(&mut self) -> u8 {
        self.g.byte()
    }

    /// Encode a request on `ctx` and return the packet bytes (empty when refused / panicked).
    pub fn enc_req(&mut self, ctx: u64, name: &str, args: Value) -> Vec<u8> {
        let poison = self.poison();
        let e = self.ex(json!({"op":"enc_req","ctx":ctx,"name":name,"args":args,"buf_len":300,"poison":poison}));
        pkt_of(&e)
    }

    pub fn enc_resp(&mut self, ctx: u64, name: &str, args: Value) -> Vec<u8> {
        let poison = self.poison();
        let e = self.ex(json!({"op":"enc_resp","ctx":ctx,"name":name,"args":args,"buf_len":300,"poison":poison}));
        pkt_of(&e)
    }

    pub fn enc_vendor(&mut self, ctx: u64, args: Value, buf_len: usize) -> Vec<u8> {
        let poison = self.poison();
        let e = self.ex(json!({"op":"enc_vendor","ctx":ctx,"args":args,"buf_len":buf_len,"poison":poison}));
        pkt_of(&e)
    }

    pub fn enc_gen(&mut self, ctx: u64, half: &str, kind: &str, args: Value, buf_len: usize) -> Vec<u8> {
        let poison = self.poison();
        let e = self.ex(json!({"op":"enc_gen","ctx":ctx,"half":half,"kind":kind,"args":args,"buf_len":buf_len,"poison":poison}));
        pkt_of(&e)
    }

    pub fn decode(&mut self, ctx: u64, p: &[u8]) -> Value {
        self.ex(json!({"op":"decode","ctx":ctx,"p":jb(p)}))
    }

    pub fn get_length(&mut self, ctx: u64, p: &[u8]) -> Value {
        self.ex(json!({"op":"get_length","ctx":ctx,"p":jb(p)}))
    }

    pub fn process(&mut self, ctx: u64, p: &[u8]) -> Value {
        let poison = self.poison();
        // the capacity of the caller's response buffer is a free parameter of C11 / C12 / C15 (any buffer the
        // response fits into): mostly 64, otherwise sizes around and beyond the SMBus frame limit
        let cap = match poison % 16 {
            0 => 65,
            1 => 128,
            2 => 259,
            3 => 260,
            4 => 300,
            5 => 512,
            6 => 1024,
            _ => 64,
        };
        let v = self.ex(json!({"op":"process","ctx":ctx,"p":jb(p),"rbuf_len":cap,"poison":poison}));
        if self.echo {
            self.remember(ctx, p);
        }
        v
    }

    pub fn process_n(&mut self, ctx: u64, p: &[u8], rbuf_len: usize) -> Value {
        let poison = self.poison();
        self.ex(json!({"op":"process","ctx":ctx,"p":jb(p),"rbuf_len":rbuf_len,"poison":poison}))
    }

    /// Random arguments of the documented shape for a request encoder.
    pub fn rand_req_args(&mut self, name: &str, dst: u8) -> Value {
        let g = &mut self.g;
        match name {
            "set_endpoint_id" => json!({"dst":dst,"operation":g.below(4),"eid":1 + g.below(254)}),
            "get_mctp_version_support" => json!({"dst":dst,"query":*g.pick(&VERSION_QUERIES)}),
            "get_vendor_defined_message_support" => json!({"dst":dst,"selector":g.byte()}),
            "resolve_endpoint_id" => json!({"dst":dst,"eid":g.byte()}),
            "allocate_endpoint_ids" => {
                json!({"dst":dst,"operation":g.below(3),"pool_size":g.byte(),"first_eid":g.byte()})
            }
            "routing_information_update" => {
                let n = g.below(8) as usize;
                let es: Vec<Value> = (0..n).map(|_| jb(&g.bytes(4))).collect();
                json!({"dst":dst,"entries":es})
            }
            "get_routing_table_entries" => json!({"dst":dst,"handle":g.byte()}),
            "query_hop" => json!({"dst":dst,"eid":g.byte(),"msg_type":*g.pick(&MSG_TYPE_VARIANTS)}),
            "resolve_uuid" => json!({"dst":dst,"uuid":jb(&g.bytes(16)),"handle":g.byte()}),
            _ => json!({"dst":dst}),
        }
    }

    pub fn rand_resp_args(&mut self, name: &str, dst: u8, cc: u64) -> Value {
        let g = &mut self.g;
        match name {
            "set_endpoint_id" => json!({"dst":dst,"cc":cc,"assignment":g.below(2),"allocation":g.below(3)}),
            "get_endpoint_id" => {
                json!({"dst":dst,"cc":cc,"endpoint_type":g.below(2),"id_type":g.below(4),"fairness":g.below(2)})
            }
            "get_endpoint_uuid" => json!({"dst":dst,"cc":cc,"uuid":jb(&g.bytes(16))}),
            "get_mctp_version_support" => json!({"dst":dst,"cc":cc}),
            "get_message_type_suport" => {
                let n = g.below(31) as usize;
                json!({"dst":dst,"cc":cc,"types":jb(&g.bytes(n))})
            }
            _ => {
                let n = *g.pick(&[0usize, 3, 5, 7, 1, 2, 4, 6]);
                json!({"dst":dst,"cc":cc,"selector":g.byte(),"vid":jb(&g.bytes(n))})
            }
        }
    }
}

pub fn pkt_of(e: &Value) -> Vec<u8> {
    if e["res"]["kind"] == "ok" {
        let n = e["res"]["len"].as_u64().unwrap() as usize;
        let b = bytes(&e["buf"]);
        if n <= b.len() {
            return b[..n].to_vec();
        }
    }
    Vec::new()
}

pub fn drive(family: &str, thorough: bool, seed_val: u64, r: &mut Runner) {
    let mut d = D {
        r,
        // a sharded run of a family that does not split its own work (only `tour` does) is the same family under
        // another seed: thorough tiers use this to multiply the random families
        g: Rng::new(seed_val.wrapping_add(crate::drivers_rx::shard_of().0 as u64 * 7919)),
        thorough,
        echo: matches!(family, "history" | "identity" | "forge" | "vendor_enum"),
        recent: Default::default(),
    };
    match family {
        "seed" => seed(&mut d),
        "requests" => crate::drivers_enc::requests(&mut d),
        "responses" => crate::drivers_enc::responses(&mut d),
        "vendor" => crate::drivers_enc::vendor(&mut d),
        "lengths" => crate::drivers_enc::lengths(&mut d),
        "hdr_sweep" => crate::drivers_enc::hdr_sweep(&mut d),
        "corrupt" => crate::drivers_rx::corrupt(&mut d),
        "mutate" => crate::drivers_rx::mutate(&mut d),
        "robust" => crate::drivers_rx::robust(&mut d),
        "forge" => crate::drivers_rx::forge(&mut d),
        "history" => crate::drivers_rx::history(&mut d),
        "vendor_enum" => crate::drivers_rx::vendor_enum(&mut d),
        "identity" => crate::drivers_rx::identity(&mut d),
        "probe" => crate::drivers_rx::probe(&mut d),
        "tour" => crate::drivers_rx::tour(&mut d),
        "bus" => crate::drivers_rx::bus(&mut d),
        "headers" => crate::drivers_misc::headers(&mut d),
        "conv" => crate::drivers_misc::conv(&mut d),
        _ => {
            eprintln!("harness: unknown driver family '{}'", family);
            std::process::exit(2)
        }
    }
}

/// The repository's own literal test packets and happy-path calls.
fn seed(d: &mut D) {
    d.std_ctxs();
    let lits: [&[u8]; 3] = [
        &[0x44, 0x0f, 0x0a, 0x69, 0x01, 0x22, 0x34, 0xc8, 0x05, 0x10, 0x84, 0x00, 0x00, 0x9c],
        &[
            0x68, 0x0f, 0x0e, 0x45, 0x01, 0x34, 0x22, 0xc8, 0x05, 0x10, 0x04, 0x00, 0x00, 0x00, 0x01,
            0x00, 0x12, 0x97,
        ],
        &[
            0x46, 0xf, 0x2a, 0x17, 0x1, 0x23, 0xb, 0xc0, 0x7e, 0x14, 0x14, 0x0, 0x1, 0x0, 0x0, 0x0, 0x0,
            0x0, 0x0, 0x0, 0x0, 0x0, 0x0, 0x0, 0x0, 0x0, 0x0, 0x0, 0x0, 0x0, 0x0, 0x0, 0x0, 0x0, 0x0,
            0x0, 0x0, 0x0, 0x0, 0x0, 0x0, 0x0, 0x0, 0x0, 0x0, 0x42,
        ],
    ];
    for c in 0..3 {
        for p in lits.iter() {
            d.decode(c, p);
            d.get_length(c, p);
            d.process(c, p);
        }
    }
    for name in REQ_NAMES.iter() {
        let a = d.rand_req_args(name, 0x23);
        let p = d.enc_req(1, name, a);
        if !p.is_empty() {
            d.decode(0, &p);
            d.process(0, &p);
        }
    }
    for name in RESP_NAMES.iter() {
        for cc in [0u64, 2] {
            let a = d.rand_resp_args(name, 0x51, cc);
            let p = d.enc_resp(0, name, a);
            if !p.is_empty() {
                d.decode(1, &p);
                d.process(1, &p);
            }
        }
    }
}

