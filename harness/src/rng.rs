//! SplitMix64: a tiny deterministic PRNG so that every driver is reproducible from VERIF_SEED.
pub struct Rng(pub u64);

impl Rng {
    pub fn new(seed: u64) -> Self {
        Rng(seed ^ 0x9E37_79B9_7F4A_7C15)
    }
    pub fn next(&mut self) -> u64 {
        self.0 = self.0.wrapping_add(0x9E37_79B9_7F4A_7C15);
        let mut z = self.0;
        z = (z ^ (z >> 30)).wrapping_mul(0xBF58_476D_1CE4_E5B9);
        z = (z ^ (z >> 27)).wrapping_mul(0x94D0_49BB_1331_11EB);
        z ^ (z >> 31)
    }
    pub fn below(&mut self, n: u64) -> u64 {
        if n == 0 {
            return 0;
        }
        self.next() % n
    }
    pub fn byte(&mut self) -> u8 {
        (self.next() >> 24) as u8
    }
    pub fn bytes(&mut self, n: usize) -> Vec<u8> {
        (0..n).map(|_| self.byte()).collect()
    }
    pub fn pick<'a, T>(&mut self, xs: &'a [T]) -> &'a T {
        &xs[self.below(xs.len() as u64) as usize]
    }
    pub fn chance(&mut self, num: u64, den: u64) -> bool {
        self.below(den) < num
    }
}
