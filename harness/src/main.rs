//! Conformance harness binding the TLA+ specification in /verif/spec to the real libmctp.
//!
//!   run   <scenario.ndjson> <trace.ndjson>          execute a scenario (TLC-generated or a replay file)
//!   drive <family> <tier> <seed> <trace.ndjson>     run a seeded driver family against the library
//!
//! Exit status: 0 = trace written; 2 = malformed command / I/O problem.  The harness never
//! judges the library: verdicts come from TLC validating the trace against Trace.tla.

mod drivers;
mod drivers_enc;
mod drivers_misc;
mod drivers_rx;
mod rng;
mod runner;

use std::fs::File;
use std::io::{BufRead, BufReader, BufWriter};

fn main() {
    // panics of the library are data (caught in runner.rs) and stay silent; a panic located in the harness's own
    // files is a defect of the harness and is reported, so that the wrapper's tool error says where
    std::panic::set_hook(Box::new(|info| {
        if let Some(l) = info.location() {
            let f = l.file();
            if ["main.rs", "runner.rs", "rng.rs", "drivers.rs", "drivers_enc.rs", "drivers_rx.rs", "drivers_misc.rs"]
                .iter()
                .any(|h| f.ends_with(h) && !f.contains("repo"))
            {
                eprintln!("harness panic at {}:{}: {}", f, l.line(), info);
            }
        }
    }));
    let args: Vec<String> = std::env::args().collect();
    if args.len() < 2 {
        eprintln!("usage: harness run <scenario> <trace> | drive <family> <tier> <seed> <trace>");
        std::process::exit(2);
    }
    match args[1].as_str() {
        "run" if args.len() == 4 => {
            let inp = BufReader::new(File::open(&args[2]).unwrap_or_else(|e| {
                eprintln!("harness: cannot open {}: {}", args[2], e);
                std::process::exit(2)
            }));
            let out = BufWriter::new(File::create(&args[3]).expect("create trace"));
            let mut r = runner::Runner::new(Some(Box::new(out)));
            for line in inp.lines() {
                let line = line.expect("read scenario");
                let t = line.trim();
                if t.is_empty() || t.starts_with('#') {
                    continue;
                }
                let cmd: serde_json::Value = serde_json::from_str(t).unwrap_or_else(|e| {
                    eprintln!("harness: bad JSON in scenario: {}", e);
                    std::process::exit(2)
                });
                r.exec(&cmd);
            }
            r.finish();
            eprintln!("harness: {} events", r.seq);
        }
        "drive" if args.len() == 6 => {
            let seed: u64 = args[4].parse().unwrap_or_else(|_| {
                eprintln!("harness: seed must be an integer");
                std::process::exit(2)
            });
            let out = BufWriter::new(File::create(&args[5]).expect("create trace"));
            let mut r = runner::Runner::new(Some(Box::new(out)));
            let thorough = match args[3].as_str() {
                "quick" => false,
                "thorough" => true,
                _ => {
                    eprintln!("harness: tier must be quick or thorough");
                    std::process::exit(2)
                }
            };
            drivers::drive(&args[2], thorough, seed, &mut r);
            r.finish();
            eprintln!("harness: {} events", r.seq);
        }
        _ => {
            eprintln!("usage: harness run <scenario> <trace> | drive <family> <tier> <seed> <trace>");
            std::process::exit(2);
        }
    }
}
