//! Driver families for the receive side: decoder, length probe and request processor
//! (properties C02, C09-C15, C17).

use crate::drivers::*;
use serde_json::{json, Value};

/// A corpus of valid packets: the output of every encoder (recorded as events like any other call).
pub fn corpus(d: &mut D, enc_ctx: u64, dst: u8) -> Vec<Vec<u8>> {
    let mut v: Vec<Vec<u8>> = Vec::new();
    for name in REQ_NAMES.iter() {
        let mut a = d.rand_req_args(name, dst);
        if *name == "get_vendor_defined_message_support" {
            a["selector"] = json!(0);
        }
        if *name == "set_endpoint_id" {
            a["operation"] = json!(d.g.below(2));
        }
        v.push(d.enc_req(enc_ctx, name, a));
    }
    for name in RESP_NAMES.iter() {
        let a = d.rand_resp_args(name, dst, 0);
        v.push(d.enc_resp(enc_ctx, name, a));
    }
    let id = d.g.bytes(4);
    let m1 = d.g.bytes(5);
    v.push(d.enc_vendor(enc_ctx, json!({"dst":dst,"format":0,"data":jb(&id),"num":0,"msg":jb(&m1)}), 64));
    v.push(d.enc_vendor(enc_ctx, json!({"dst":dst,"format":1,"data":jb(&id),"num":0,"msg":jb(&m1)}), 64));
    v.push(d.enc_vendor(enc_ctx, json!({"dst":dst,"format":1,"data":jb(&id),"num":0,"msg":[]}), 64));
    v.push(d.enc_gen(enc_ctx, "req", "spdm", json!({"dst":dst,"has_hdr":0,"hdr":[],"data":[16,132,0,0]}), 64));
    v.push(d.enc_gen(enc_ctx, "req", "secured", json!({"dst":dst,"has_hdr":1,"hdr":[1,2],"data":jb(&m1)}), 64));
    v.push(d.enc_gen(enc_ctx, "req", "pci", json!({"dst":dst,"has_hdr":0,"hdr":[],"data":[]}), 64));
    v.retain(|p| p.len() >= 10);
    v
}

/// The probe queries whose answers expose the endpoint's state ("nor any later output").
fn probes(d: &mut D, ctx: u64, from: u64) {
    for name in ["get_endpoint_id", "get_endpoint_uuid"] {
        let p = d.enc_req(from, name, json!({"dst":0x23}));
        d.process(ctx, &p);
    }
    let p = d.enc_req(from, "get_vendor_defined_message_support", json!({"dst":0x23,"selector":0}));
    d.process(ctx, &p);
}

/// C02: every corruption confined to eight consecutive bits, of every valid packet.
pub fn corrupt(d: &mut D) {
    d.std_ctxs();
    // the victim has state worth protecting
    d.new_ctx(5, 0x23, &[0x7E, 0x05], &[(0, [0, 0, 0x12, 0x34], [0, 0xAB]), (1, [1, 2, 3, 4], [5, 6])]);
    let set = d.enc_req(1, "set_endpoint_id", json!({"dst":0x23,"operation":0,"eid":0x6A}));
    d.process(5, &set);
    let u = d.g.bytes(16);
    d.ex(json!({"op":"set_uuid","ctx":5,"uuid":jb(&u)}));
    let pkts = corpus(d, 1, 0x23);
    let mut since_probe = 0;
    for p in pkts.iter() {
        let bits = p.len() * 8;
        let mut faults: Vec<(usize, u8)> = Vec::new(); // (bit offset of window start, 8-bit pattern with MSB set)
        if d.thorough {
            for off in 0..bits {
                for pat in 128..=255u16 {
                    faults.push((off, pat as u8));
                }
            }
        } else {
            for off in 0..bits {
                faults.push((off, 0x80)); // single-bit flip
            }
            for off in (0..bits).step_by(3) {
                faults.push((off, 0xFF));
            }
            for _ in 0..70 {
                faults.push((d.g.below(bits as u64) as usize, 0x80 | d.g.byte()));
            }
        }
        for (off, pat) in faults {
            let mut q = p.clone();
            let mut changed = false;
            for b in 0..8 {
                if pat & (0x80 >> b) != 0 {
                    let pos = off + b;
                    if pos < bits {
                        q[pos / 8] ^= 0x80 >> (pos % 8);
                        changed = true;
                    }
                }
            }
            if !changed {
                continue;
            }
            if d.thorough && d.g.chance(2, 3) {
                d.process(5, &q);
            } else {
                d.decode(5, &q);
                d.process(5, &q);
            }
            since_probe += 1;
            if since_probe >= if d.thorough { 5000 } else { 150 } {
                probes(d, 5, 1);
                since_probe = 0;
            }
        }
        probes(d, 5, 1);
    }
    // random byte strings and valid packets with a random wrong PEC
    for _ in 0..(if d.thorough { 20000 } else { 1500 }) {
        let n = 10 + d.g.below(40) as usize;
        let mut q = d.g.bytes(n);
        if d.g.chance(3, 4) {
            q[4] = 1;
            q[8] = *d.g.pick(&[0u8, 5, 6, 0x7E, 0x7F]);
        }
        d.decode(5, &q);
        d.process(5, &q);
    }
    // byte strings longer than any SMBus packet: a valid maximum-size packet followed by more bytes,
    // and valid packets of every kind with trailing bytes; the last byte is not the PEC of the rest
    for kind in ["pci", "iana", "spdm", "secured", "control"] {
        for total in [259usize, 258, 200] {
            let mut data = d.g.bytes(total - 10);
            if kind == "control" {
                data[0] = 0x80;
                data[1] = 0x02;
            }
            let p = d.enc_gen(1, "req", kind, json!({"dst":0x23,"has_hdr":0,"hdr":[],"data":jb(&data)}), 300);
            if p.is_empty() {
                continue;
            }
            for extra in [1usize, 2, 3, 9, 41, 300] {
                for rep in 0..3 {
                    let mut q = p.clone();
                    q.extend_from_slice(&d.g.bytes(extra));
                    if crc8(&q[..q.len() - 1]) == q[q.len() - 1] {
                        let n = q.len();
                        q[n - 1] ^= 0x55;
                    }
                    if rep == 1 {
                        // the way a sloppy driver would do it: probe the length, then hand over the whole buffer
                        d.get_length(5, &q[..q.len().min(3)]);
                    }
                    d.decode(5, &q);
                    if rep == 2 {
                        d.get_length(5, &q);
                    }
                    d.process(5, &q);
                }
                // ... and the same length with a PEC that is right for the whole string
                let mut q = p.clone();
                q.extend_from_slice(&d.g.bytes(extra));
                fix_pec(&mut q);
                d.decode(5, &q);
                d.process(5, &q);
            }
        }
    }
    // every corpus packet followed by 1-3 more bytes, crafted so that the byte where the PEC of the original
    // packet sat equals the CRC of everything but the final byte (a PEC "in the wrong place"), and the same
    // with the original PEC left alone; the final byte is wrong in both; half of them after a length probe
    for p in pkts.iter() {
        for extra in 1..=3usize {
            let mut q = p.clone();
            q.extend_from_slice(&d.g.bytes(extra));
            let inner = p.len() - 1;
            let n = q.len();
            for v in 0..=255u8 {
                q[inner] = v;
                if crc8(&q[..n - 1]) == v {
                    break;
                }
            }
            if crc8(&q[..n - 1]) == q[n - 1] {
                q[n - 1] ^= 0x3C;
            }
            if extra == 2 {
                d.get_length(5, &q[..q.len().min(3)]);
            }
            d.decode(5, &q);
            d.process(5, &q);
            let mut q2 = p.clone();
            q2.extend_from_slice(&d.g.bytes(extra));
            if crc8(&q2[..n - 1]) == q2[n - 1] {
                q2[n - 1] ^= 0x3C;
            }
            d.get_length(5, &q2[..q2.len().min(3)]);
            d.decode(5, &q2);
            d.get_length(5, &q2[..q2.len().min(3)]);
            d.process(5, &q2);
        }
    }
    probes(d, 5, 1);
    for p in pkts.iter() {
        for delta in 1..=255u8 {
            if !d.thorough && delta % 16 != 1 {
                continue;
            }
            let mut q = p.clone();
            let n = q.len();
            q[n - 1] ^= delta;
            d.decode(5, &q);
            d.process(5, &q);
        }
    }
    probes(d, 5, 1);
}

fn decode3(d: &mut D, p: &[u8], k: usize) {
    if k % 4 == 0 {
        for c in 0..3 {
            d.decode(c, p);
        }
    } else {
        d.decode(k as u64 % 3, p);
    }
}

/// Decode `p` on contexts whose own address / EID are *related* to the packet (equal to its source or
/// destination address or EID), the EID installed both through the accessors and through a processed
/// Set Endpoint ID request (history), next to a fresh context.
pub fn related_ctx_decodes(d: &mut D, p: &[u8]) {
    if p.len() < 9 {
        return;
    }
    for addr in [p[3] >> 1, p[0] >> 1] {
        for eid in [p[6], p[5], addr] {
            d.new_ctx(31, addr, &[0x7E], &[(0, [0, 0, 0x12, 0x34], [0, 0xAB])]);
            d.decode(31, p);
            if eid != 0 && eid != 0xFF {
                let mut set = vec![(addr & 0x7F) << 1, 0x0F, 10, 0x23, 0x01, addr, 0x11, 0xC8, 0x00, 0x80, 0x01, 0x00, eid, 0];
                fix_pec(&mut set);
                d.process(31, &set);
            } else {
                d.ex(json!({"op":"set_eid","ctx":31,"half":"req","eid":eid}));
                d.ex(json!({"op":"set_eid","ctx":31,"half":"resp","eid":eid}));
            }
            d.decode(31, p);
            d.process(31, p);
        }
    }
}

/// C09: one-field-at-a-time and multi-field mutations of valid packets, valid and invalid PECs.
pub fn mutate(d: &mut D) {
    d.std_ctxs();
    let pkts = corpus(d, 1, 0x23);
    let mut k = 0usize;
    for p in pkts.iter() {
        related_ctx_decodes(d, p);
        let mut q = p.clone();
        q[6] = q[3] >> 1; // source EID = source address, as in every packet the library emits
        q[5] = q[0] >> 1;
        fix_pec(&mut q);
        related_ctx_decodes(d, &q);
    }
    // every value of each byte 4..=12 (header version/reserved, EIDs, flags, type, control header,
    // command, completion code / first data byte), PEC recomputed and PEC left stale
    for (pi, p) in pkts.iter().enumerate() {
        let quick_skip = !d.thorough && pi % 3 != 0 && pi > 8;
        let mut idxs: Vec<usize> = (0..=12usize).filter(|i| *i < p.len() - 1).collect();
        if p.len() > 15 {
            idxs.push(p.len() - 2);
            idxs.push(p.len() - 3);
        }
        for idx in idxs {
            for v in 0..=255u16 {
                if quick_skip && v % 8 != (pi as u16 % 8) {
                    continue;
                }
                let mut q = p.clone();
                q[idx] = v as u8;
                // stale PEC: always for the bytes the decoder does not look at (their only effect is on the
                // PEC), one in eight elsewhere; decoded on the context the packet is addressed to as well
                if idx < 4 || d.g.chance(1, 8) {
                    k += 1;
                    decode3(d, &q, k);
                    if idx < 4 && v % 4 == 0 {
                        d.decode(0, &q);
                    }
                }
                fix_pec(&mut q);
                k += 1;
                decode3(d, &q, k);
            }
        }
    }
    // every command code x request/response x data length 0..20, completion codes
    for cmd in 0..=255u16 {
        for rq in 0..2u8 {
            for n in 0..=20usize {
                if !d.thorough && cmd > 0x18 && n % 4 != (cmd as usize % 4) {
                    continue;
                }
                let mut q: Vec<u8> = vec![0x46, 0x0F, 0, 0x69, 0x01, 0x23, 0x34, 0xC8, 0x00];
                q.push((rq << 7) | (d.g.byte() & 0x1F));
                q.push(cmd as u8);
                if rq == 0 {
                    q.push(0);
                }
                q.extend_from_slice(&d.g.bytes(n));
                q.push(0);
                q[2] = (q.len() - 4) as u8;
                fix_pec(&mut q);
                k += 1;
                decode3(d, &q, k);
            }
        }
    }
    for cc in 0..=255u16 {
        for cmd in [1u8, 2, 3, 4, 5, 6, 7, 9, 0x0F, 0x20] {
            let n = d.g.below(6) as usize;
            let mut q: Vec<u8> = vec![0x46, 0x0F, 0, 0x69, 0x01, 0x23, 0x34, 0xC8, 0x00, 0x00, cmd, cc as u8];
            q.extend_from_slice(&d.g.bytes(n));
            q.push(0);
            q[2] = (q.len() - 4) as u8;
            if d.g.chance(7, 8) {
                fix_pec(&mut q);
            }
            k += 1;
            decode3(d, &q, k);
        }
    }
    // random multi-field mutations and lengths
    for _ in 0..(if pkts.is_empty() { 0 } else if d.thorough { 60000 } else { 4000 }) {
        let mut q = d.g.pick(&pkts).clone();
        let nm = 1 + d.g.below(3);
        for _ in 0..nm {
            let i = d.g.below(q.len() as u64) as usize;
            q[i] = if d.g.chance(1, 2) { d.g.byte() } else { *d.g.pick(&[0u8, 1, 0x7F, 0x80, 0xFF, 5, 6, 0x7E]) };
        }
        match d.g.below(5) {
            0 => {
                let cut = 10 + d.g.below((q.len() - 9) as u64) as usize;
                q.truncate(cut.min(q.len()));
            }
            1 => {
                let n = d.g.below(6) as usize;
                let at = q.len() - 1;
                for b in d.g.bytes(n) {
                    q.insert(at, b);
                }
            }
            _ => {}
        }
        if d.g.chance(5, 6) {
            fix_pec(&mut q);
        }
        k += 1;
        decode3(d, &q, k);
    }
}

/// C10: the input classes the quantifier names, through decoder, length probe and processor.
pub fn robust(d: &mut D) {
    d.std_ctxs();
    d.new_ctx(5, 0x23, &[0x7E], &[(0, [0, 0, 0x12, 0x34], [0, 0xAB]), (1, [1, 2, 3, 4], [5, 6]), (0, [0, 0, 9, 9], [1, 1])]);
    let all3 = |d: &mut D, q: &[u8]| {
        d.decode(5, q);
        d.get_length(5, q);
        d.process(5, q);
    };
    // every length 0..=12 of zeros, ones, random, and of header-shaped bytes
    for n in 0..=13usize {
        all3(d, &vec![0u8; n]);
        all3(d, &vec![0xFFu8; n]);
        for _ in 0..4 {
            let q = d.g.bytes(n);
            all3(d, &q);
        }
        for t in [0u8, 5, 6, 0x7E, 0x7F, 0x80, 0x01] {
            for b9 in [0x80u8, 0x00, 0x9F] {
                let full: Vec<u8> = vec![0x46, 0x0F, 9, 0x69, 0x01, 0x23, 0x34, 0xC8, t, b9, 0x02, 0x00, 0x00];
                let mut q = full[..n.min(full.len())].to_vec();
                all3(d, &q);
                fix_pec(&mut q);
                all3(d, &q);
            }
        }
    }
    // nine-byte inputs whose message-type byte happens to equal the PEC of the eight bytes before it
    // (headers complete, PEC "right", no room for a payload)
    for t in [0x05u8, 0x06, 0x7E, 0x7F, 0x00] {
        let mut found = 0;
        'search: for b5 in 0..=255u8 {
            for b6 in 0..=255u8 {
                let mut q = vec![0x46u8, 0x0F, 5, 0x69, 0x01, b5, b6, 0xC8];
                if crc8(&q) == t {
                    q.push(t);
                    all3(d, &q);
                    // ... and the same nine bytes at the start of a longer receive buffer
                    for extra in [1usize, 2, 5] {
                        let mut q2 = q.clone();
                        q2.extend_from_slice(&d.g.bytes(extra));
                        all3(d, &q2);
                        fix_pec(&mut q2);
                        all3(d, &q2);
                    }
                    found += 1;
                    if found >= 6 {
                        break 'search;
                    }
                    break;
                }
            }
        }
    }
    // every truncation point of every valid packet, with stale and recomputed PEC
    let pkts = corpus(d, 1, 0x23);
    for p in pkts.iter() {
        for cut in 0..p.len() {
            let mut q = p[..cut].to_vec();
            all3(d, &q);
            if cut >= 1 {
                fix_pec(&mut q);
                d.decode(5, &q);
                d.process(5, &q);
            }
        }
    }
    // every command code x Rq x data length, through the processor; instance ids and D bit vary
    for cmd in 0..=255u16 {
        for rq in 0..2u8 {
            for n in 0..=20usize {
                if !d.thorough && cmd > 0x18 && n % 5 != (cmd as usize % 5) {
                    continue;
                }
                let mut q: Vec<u8> = vec![0x46, 0x0F, 0, 0x69, 0x01, 0x23, 0x34, 0xC8, 0x00];
                q.push((rq << 7) | (d.g.byte() & 0x5F));
                q.push(cmd as u8);
                if rq == 0 {
                    q.push(0);
                }
                q.extend_from_slice(&d.g.bytes(n));
                q.push(0);
                q[2] = (q.len() - 4) as u8;
                fix_pec(&mut q);
                d.process(5, &q);
            }
        }
    }
    // the commands the processor knows x short / exact / long data x datagram bit x special destination EIDs
    for cmd in 0..=9u8 {
        for n in 0..=4usize {
            for dbit in 0..2u8 {
                for dst_eid in [0x23u8, 0xFF, 0x00, 0x34] {
                    for rq in 0..2u8 {
                        let mut q: Vec<u8> = vec![0x46, 0x0F, 0, 0x69, 0x01, dst_eid, 0x34, 0xC8, 0x00, (rq << 7) | (dbit << 6) | (d.g.byte() & 0x1F), cmd];
                        if rq == 0 {
                            q.push(0);
                        }
                        q.extend_from_slice(&d.g.bytes(n));
                        q.push(0);
                        q[2] = (q.len() - 4) as u8;
                        fix_pec(&mut q);
                        d.process(5, &q);
                    }
                }
            }
        }
    }
    // completion codes 0..=255 on responses to several commands
    for cc in 0..=255u16 {
        for cmd in [1u8, 2, 3, 5, 7, 0x0A, 0xFF] {
            let mut q: Vec<u8> = vec![0x46, 0x0F, 0, 0x69, 0x01, 0x23, 0x34, 0xC8, 0x00, 0x00, cmd, cc as u8, 1, 2, 3, 0];
            q[2] = (q.len() - 4) as u8;
            fix_pec(&mut q);
            d.decode(5, &q);
            d.process(5, &q);
        }
    }
    // Set Endpoint ID: every operation byte and every EID
    for op in 0..=255u16 {
        let eid = d.g.byte();
        let mut q: Vec<u8> = vec![0x46, 0x0F, 10, 0x69, 0x01, 0x23, 0x34, 0xC8, 0x00, 0x80, 0x01, op as u8, eid, 0];
        fix_pec(&mut q);
        d.process(5, &q);
    }
    // Get Vendor Defined Message Support: every selector against n = 1..=16 sets
    for n in 1..=16usize {
        let vids: Vec<(u8, [u8; 4], [u8; 2])> = (0..n)
            .map(|i| ((i % 2) as u8, [if i % 2 == 1 { d.g.byte() } else { 0 }, if i % 2 == 1 { d.g.byte() } else { 0 }, d.g.byte(), d.g.byte()], [d.g.byte(), d.g.byte()]))
            .collect();
        d.new_ctx(6, 0x23, &[], &vids);
        for s in 0..=255u16 {
            if !d.thorough && n > 3 && n < 16 && s > (n as u16 + 3) && s < 250 {
                continue;
            }
            let mut q: Vec<u8> = vec![0x46, 0x0F, 9, 0x69, 0x01, 0x23, 0x34, 0xC8, 0x00, 0x80, 0x06, s as u8, 0];
            fix_pec(&mut q);
            d.process(6, &q);
        }
    }
    // total lengths around the one-byte count limit through decoder and processor
    for total in 245..=266usize {
        for t in [0u8, 0x7E, 0x7F, 5, 6] {
            for variant in 0..3 {
                let mut q: Vec<u8> = vec![0x46, 0x0F, 0, 0x69, 0x01, 0x23, 0x34, 0xC8, t];
                if t == 0 {
                    match variant {
                        0 => q.extend_from_slice(&[0x80, 0x02]),
                        1 => q.extend_from_slice(&[0x00, 0x05, 0x00]),
                        _ => q.extend_from_slice(&[0x80, 0x09]),
                    }
                }
                while q.len() < total - 1 {
                    q.push(d.g.byte());
                }
                q.push(0);
                q[2] = ((total - 4) & 0xFF) as u8;
                fix_pec(&mut q);
                all3(d, &q);
            }
        }
    }
    // packets "from other implementations": random tails after plausible headers
    for _ in 0..(if d.thorough { 50000 } else { 4000 }) {
        let n = d.g.below(40) as usize;
        let mut q: Vec<u8> = vec![d.g.byte(), 0x0F, 0, d.g.byte(), 0x01, d.g.byte(), d.g.byte(), d.g.byte()];
        q.push(*d.g.pick(&[0u8, 0, 0, 5, 6, 0x7E, 0x7F, 0x85, 0x01]));
        q.extend_from_slice(&d.g.bytes(n));
        if q.len() > 10 && d.g.chance(1, 2) {
            q[9] &= 0x9F;
            q[10] = d.g.below(0x18) as u8;
        }
        q.push(0);
        q[2] = (q.len() - 4) as u8;
        if d.g.chance(9, 10) {
            fix_pec(&mut q);
        }
        all3(d, &q);
    }
}

/// Build a library-encoded request and patch source address / EID, instance id and D bit.
fn forge_req(d: &mut D, enc_ctx: u64, name: &str, args: Value, src: u8, iid: u8, dbit: u8) -> Vec<u8> {
    let mut p = d.enc_req(enc_ctx, name, args.clone());
    if p.len() < 12 {
        // refused, panicked, or (with a broken encoder) not even a control packet: the receive-side drivers must not
        // depend on a working encoder, so the request is written by hand from DSP0236 (the monitor judges the
        // receive path on the bytes it is given, wherever they come from)
        p = hand_req(name, &args);
    }
    p[3] = (src << 1) | 1;
    p[6] = src;
    p[9] = 0x80 | (dbit << 6) | (iid & 0x1F);
    // the flag byte of the transport header is the requester's business: mostly what this library's encoders
    // write (SOM, EOM, sequence 0, tag owner, tag 0), otherwise another message tag, the tag-owner bit clear,
    // another packet sequence number, or any byte at all (the decoder decides what it accepts; the monitor
    // judges the outcome either way)
    let r = d.g.below(16);
    match r {
        0 | 1 => p[7] = 0xC8 | (1 + d.g.below(7) as u8),
        2 => p[7] = 0xC0 | d.g.below(8) as u8,
        3 => p[7] = 0xC8 | ((1 + d.g.below(3) as u8) << 4) | d.g.below(8) as u8,
        4 => p[7] = d.g.byte(),
        _ => {}
    }
    fix_pec(&mut p);
    p
}

/// A control request written by hand (fallback of `forge_req`): always at least 12 bytes.
fn hand_req(name: &str, args: &Value) -> Vec<u8> {
    let b = |k: &str| args[k].as_u64().unwrap_or(0) as u8;
    let (cmd, data): (u8, Vec<u8>) = match name {
        "set_endpoint_id" => (1, vec![b("operation") & 3, b("eid")]),
        "get_endpoint_id" => (2, vec![]),
        "get_endpoint_uuid" => (3, vec![]),
        "get_mctp_version_support" => (4, vec![b("query")]),
        "get_message_type_suport" => (5, vec![]),
        "get_vendor_defined_message_support" => (6, vec![b("selector")]),
        _ => (0x0B, vec![]), // Get Routing Table Entries shape; callers only need a well-framed control request
    };
    let dst = b("dst");
    let mut p = vec![dst << 1, 0x0F, 0, 0x01, 0x01, dst, 0, 0xC8, 0x00, 0x80, cmd];
    p.extend_from_slice(&data);
    p.push(0);
    p[2] = (p.len() - 4) as u8;
    fix_pec(&mut p);
    p
}

/// C11 / C12: responses to forged requests from every requester, to every responder.
pub fn forge(d: &mut D) {
    d.std_ctxs();
    let vids = [(0u8, [0u8, 0, 0x12, 0x34], [0u8, 0xAB]), (1, [0x11, 0x22, 0x33, 0x44], [0x55, 0x66]), (0, [0, 0, 0xBE, 0xEF], [1, 0])];
    d.new_ctx(5, 0x23, &[0x7E, 0x7F, 0x05], &vids);
    let u = d.g.bytes(16);
    d.ex(json!({"op":"set_uuid","ctx":5,"uuid":jb(&u)}));
    let answerable = ["set_endpoint_id", "get_endpoint_id", "get_endpoint_uuid", "get_mctp_version_support", "get_message_type_suport", "get_vendor_defined_message_support"];
    let args_for = |d: &mut D, name: &str, dst: u8| -> Value {
        match name {
            "set_endpoint_id" => json!({"dst":dst,"operation":*d.g.pick(&[0u64,1,3]),"eid":1 + d.g.below(254)}),
            "get_mctp_version_support" => json!({"dst":dst,"query":*d.g.pick(&VERSION_QUERIES)}),
            "get_vendor_defined_message_support" => json!({"dst":dst,"selector":d.g.below(3)}),
            _ => json!({"dst":dst}),
        }
    };
    // every requester address x every command, instance ids rotating
    for src in 0..128u8 {
        for (ci, name) in answerable.iter().enumerate() {
            let iid = ((src as usize + ci * 5) % 32) as u8;
            let dst = if src % 3 == 0 { d.g.byte() & 0x7F } else { 0x23 }; // destination fields need not name the responder
            let a = args_for(d, name, dst);
            let p = forge_req(d, 1, name, a, src, iid, 0);
            d.process(5, &p);
        }
    }
    // every instance id x every command
    for iid in 0..32u8 {
        for name in answerable.iter() {
            let a = args_for(d, name, 0x23);
            let src = d.g.byte() & 0x7F;
            let p = forge_req(d, 1, name, a, src, iid, 0);
            d.process(5, &p);
            // datagram bit set, source address / EID mismatch: outside C12's domain, still C10/C11
            if iid % 8 == 0 {
                let a = args_for(d, name, 0x23);
                let p = forge_req(d, 1, name, a, src, iid, 1);
                d.process(5, &p);
                let a = args_for(d, name, 0x23);
                let mut q = forge_req(d, 1, name, a, src, iid, 0);
                q[6] = q[6].wrapping_add(1);
                fix_pec(&mut q);
                d.process(5, &q);
            }
        }
    }
    // every responder address (8-bit values included) and assorted configurations
    for addr in 0..=255u16 {
        let nm = d.g.below(6) as usize;
        let mts = d.g.bytes(nm);
        let nv = 1 + d.g.below(3) as usize;
        let vs: Vec<(u8, [u8; 4], [u8; 2])> = (0..nv)
            .map(|_| {
                let f = d.g.below(2) as u8;
                let b = d.g.bytes(6);
                (f, if f == 0 { [0, 0, b[2], b[3]] } else { [b[0], b[1], b[2], b[3]] }, [b[4], b[5]])
            })
            .collect();
        d.new_ctx(6, addr as u8, &mts, &vs);
        for name in answerable.iter() {
            if !d.thorough && d.g.chance(1, 2) {
                continue;
            }
            let mut a = args_for(d, name, addr as u8);
            if *name == "get_vendor_defined_message_support" {
                a["selector"] = json!(d.g.below(nv as u64));
            }
            let src = d.g.byte() & 0x7F;
            let iid = d.g.byte() & 0x1F;
            let p = forge_req(d, 1, name, a, src, iid, 0);
            d.process(6, &p);
        }
    }
    // realistic addressing: once an EID is assigned, requests are addressed to that EID (destination EID
    // field = assigned EID, SMBus destination = the endpoint's address); requesters whose own EID / address
    // is related to the responder's
    for eid in [0x56u8, 0x23, 0x7F, 0x01, 0xFE] {
        let p = forge_req(d, 1, "set_endpoint_id", json!({"dst":0x23,"operation":0,"eid":eid}), 0x11, 1, 0);
        d.process(5, &p);
        for name in answerable.iter() {
            for src in [0x11u8, eid & 0x7F, 0x23] {
                let a = args_for(d, name, 0x23);
                let iid = d.g.byte() & 0x1F;
                let mut q = forge_req(d, 1, name, a, src, iid, 0);
                if q.is_empty() {
                    continue;
                }
                q[5] = eid; // destination EID = the EID the endpoint was given
                if *name == "set_endpoint_id" && q.len() > 12 && q[11] < 2 {
                    q[12] = eid; // re-assigning the same EID
                }
                fix_pec(&mut q);
                d.process(5, &q);
            }
        }
    }
    // every command code carrying the body of each answerable command (a body that would be acted upon if the
    // code were mistaken for that command's), the EID always different from the current one
    for cmd in 0..=255u16 {
        for (k, shape) in [vec![0u8, 0], vec![1, 0], vec![], vec![0], vec![1], vec![0xFF]].iter().enumerate() {
            let mut data = shape.clone();
            if data.len() == 2 {
                data[1] = 1 + ((cmd * 3 + k as u16 * 11) % 250) as u8;
            }
            let mut q: Vec<u8> = vec![0x46, 0x0F, 0, 0x23, 0x01, 0x23, 0x11, 0xC8, 0x00, 0x80 | (cmd as u8 & 0x1F), cmd as u8];
            q.extend_from_slice(&data);
            q.push(0);
            q[2] = (q.len() - 4) as u8;
            fix_pec(&mut q);
            d.process(5, &q);
        }
    }
    // requesters whose SMBus source address and source EID disagree (outside C12's domain, inside C03-C05's
    // and C11's): every answerable command, every configured vendor selector
    for (src_addr, src_eid) in [(0x11u8, 0x12u8), (0x24, 0xA4), (0x7F, 0x00), (0x00, 0xFF), (0x23, 0x56)] {
        for (cmd, data) in [(1u8, vec![0u8, 0x31]), (2, vec![]), (3, vec![]), (4, vec![0x00]), (5, vec![]), (6, vec![0]), (6, vec![1]), (6, vec![2]), (7, vec![1])] {
            let mut q: Vec<u8> = vec![0x46, 0x0F, 0, (src_addr << 1) | 1, 0x01, 0x23, src_eid, 0xC8, 0x00, 0x80 | (d.g.byte() & 0x1F), cmd];
            q.extend_from_slice(&data);
            q.push(0);
            q[2] = (q.len() - 4) as u8;
            fix_pec(&mut q);
            d.process(5, &q);
        }
    }
    // every value of the control header's first byte (Rq, D, reserved, instance id) on well-formed bodies
    for (cmd, data) in [(1u8, vec![0u8, 0x31]), (1, vec![3, 0x31]), (2, vec![]), (3, vec![]), (4, vec![0xFF]), (5, vec![]), (6, vec![1]), (7, vec![9])] {
        for b9 in 0..=255u16 {
            let mut q: Vec<u8> = vec![0x46, 0x0F, 0, 0x23, 0x01, 0x23, 0x11, 0xC8, 0x00, b9 as u8, cmd];
            let mut data = data.clone();
            if cmd == 1 {
                // an EID that differs from the current one, so that a wrongly accepted assignment shows
                data[1] = 1 + ((b9 * 7) % 250) as u8;
            }
            q.extend_from_slice(&data);
            q.push(0);
            q[2] = (q.len() - 4) as u8;
            fix_pec(&mut q);
            d.process(5, &q);
        }
    }
    // pairwise special values of the header fields the processor can see
    for (cmd, data) in [(1u8, vec![1u8, 0x44]), (2, vec![]), (3, vec![]), (5, vec![]), (6, vec![0])] {
        for b9 in [0x80u8, 0xC0, 0xA0, 0x9F, 0xDF, 0xE0] {
            for dst_eid in [0x00u8, 0xFF, 0x23, 0x44, 0x11] {
                for src in [0x11u8, 0x23, 0x44, 0x7F, 0x00] {
                    for dst_addr in [0x23u8, 0x11] {
                        let mut q: Vec<u8> = vec![dst_addr << 1, 0x0F, 0, (src << 1) | 1, 0x01, dst_eid, src, 0xC8, 0x00, b9, cmd];
                        q.extend_from_slice(&data);
                        q.push(0);
                        q[2] = (q.len() - 4) as u8;
                        fix_pec(&mut q);
                        d.process(5, &q);
                    }
                }
            }
        }
    }
    // Set Endpoint ID with every EID 0x01..=0xFE, both assigning operations
    for eid in 1..=254u64 {
        for op in 0..2u64 {
            let src = d.g.byte() & 0x7F;
            let iid = d.g.byte() & 0x1F;
            let p = forge_req(d, 1, "set_endpoint_id", json!({"dst":0x23,"operation":op,"eid":eid}), src, iid, 0);
            d.process(5, &p);
        }
    }
    // non-requests and rejected input must not produce a response (C11): every corpus packet,
    // response buffers of several sizes and contents
    let pkts = corpus(d, 1, 0x23);
    for p in pkts.iter() {
        for rl in [64usize, 65, 100, 255] {
            d.process_n(5, p, rl);
        }
        let mut q = p.clone();
        let n = q.len();
        q[n - 1] ^= 0x10;
        d.process_n(5, &q, 64);
        let mut q = p.clone();
        q[4] = 0x11;
        fix_pec(&mut q);
        d.process_n(5, &q, 64);
    }
    // requests the endpoint does not implement, and trailing data on variable-length requests
    for cmd in [0u8, 7, 8, 9, 0x0A, 0x0B, 0x0C, 0x0D, 0x0E, 0x0F, 0x10, 0x11, 0x12, 0x13, 0x14, 0x15, 0x80, 0xFF] {
        for n in [0usize, 1, 3] {
            let mut q: Vec<u8> = vec![0x46, 0x0F, 0, 0x69, 0x01, 0x23, 0x34, 0xC8, 0x00, 0x80 | (d.g.byte() & 0x1F), cmd];
            q.extend_from_slice(&d.g.bytes(n));
            q.push(0);
            q[2] = (q.len() - 4) as u8;
            fix_pec(&mut q);
            d.process(5, &q);
        }
    }
    for cmd in [2u8, 3, 5] {
        for n in 1..=4usize {
            let mut q: Vec<u8> = vec![0x46, 0x0F, 0, 0x69, 0x01, 0x23, 0x34, 0xC8, 0x00, 0x80 | (d.g.byte() & 0x1F), cmd];
            q.extend_from_slice(&d.g.bytes(n));
            q.push(0);
            q[2] = (q.len() - 4) as u8;
            fix_pec(&mut q);
            d.process(5, &q);
        }
    }
}

/// C13: random histories of processed packets, decode-only calls and accessor calls.
pub fn history(d: &mut D) {
    d.r.keep = true;
    d.std_ctxs();
    let runs = if d.thorough { 400 } else { 40 };
    for run in 0..runs {
        let addr = d.g.byte() & 0x7F;
        let nv = 1 + d.g.below(3) as usize;
        let vs: Vec<(u8, [u8; 4], [u8; 2])> = (0..nv).map(|_| (0u8, [0, 0, d.g.byte(), d.g.byte()], [d.g.byte(), d.g.byte()])).collect();
        let c = 5 + (run % 2) as u64;
        d.new_ctx(c, addr, &[0x7E], &vs);
        let mut cur_eid: u8 = 0;
        for _ in 0..200 {
            // the requester is sometimes related to the endpoint: same address, or address = the endpoint's EID
            let src = match d.g.below(6) {
                0 => addr,
                1 => cur_eid & 0x7F,
                _ => d.g.byte() & 0x7F,
            };
            let iid = d.g.byte() & 0x1F;
            if let Some(last) = d.r.events.last() {
                if let Some(v) = last["post"]["eid_resp"].as_u64() {
                    cur_eid = v as u8;
                }
            }
            match d.g.below(16) {
                0 | 1 | 2 => {
                    let eid = 1 + d.g.below(254);
                    let op = d.g.below(2);
                    let p = forge_req(d, 1, "set_endpoint_id", json!({"dst":addr,"operation":op,"eid":eid}), src, iid, 0);
                    d.process(c, &p);
                }
                3 => {
                    let eid = 1 + d.g.below(254);
                    let p = forge_req(d, 1, "set_endpoint_id", json!({"dst":addr,"operation":3,"eid":eid}), src, iid, 0);
                    d.process(c, &p);
                }
                4 => {
                    // corrupted / truncated assignment
                    let eid = 1 + d.g.below(254);
                    let mut p = forge_req(d, 1, "set_endpoint_id", json!({"dst":addr,"operation":0,"eid":eid}), src, iid, 0);
                    if p.len() < 14 {
                        continue;
                    }
                    match d.g.below(4) {
                        0 => {
                            let i = d.g.below(p.len() as u64) as usize;
                            p[i] ^= 1 << d.g.below(8);
                        }
                        1 => {
                            p.truncate(13);
                        }
                        2 => {
                            p[4] = 0x02;
                            fix_pec(&mut p);
                        }
                        _ => {
                            p.insert(13, 0);
                            fix_pec(&mut p);
                        }
                    }
                    d.process(c, &p);
                }
                5 | 6 => {
                    let p = forge_req(d, 1, "get_endpoint_id", json!({"dst":addr}), src, iid, 0);
                    d.process(c, &p);
                }
                7 => {
                    let name = *d.g.pick(&["get_endpoint_uuid", "get_mctp_version_support", "get_message_type_suport", "get_vendor_defined_message_support"]);
                    let a = match name {
                        "get_mctp_version_support" => json!({"dst":addr,"query":0}),
                        "get_vendor_defined_message_support" => json!({"dst":addr,"selector":d.g.below(nv as u64)}),
                        _ => json!({"dst":addr}),
                    };
                    let p = forge_req(d, 1, name, a, src, iid, 0);
                    d.process(c, &p);
                }
                8 => {
                    // a response (Set Endpoint ID response carrying an EID!) must not assign
                    let name = *d.g.pick(&RESP_NAMES);
                    let a = d.rand_resp_args(name, addr, 0);
                    let p = d.enc_resp(1, name, a);
                    d.process(c, &p);
                }
                9 => {
                    let id = d.g.bytes(4);
                    let msg = d.g.bytes(4);
                    let f = d.g.below(2);
                    let p = d.enc_vendor(1, json!({"dst":addr,"format":f,"data":jb(&id),"num":0,"msg":jb(&msg)}), 40);
                    d.process(c, &p);
                }
                10 => {
                    // decode-only of an assignment
                    let eid = 1 + d.g.below(254);
                    let p = forge_req(d, 1, "set_endpoint_id", json!({"dst":addr,"operation":1,"eid":eid}), src, iid, 0);
                    d.decode(c, &p);
                    d.get_length(c, &p);
                }
                11 => {
                    let e = d.g.byte();
                    let half = if d.g.chance(1, 2) { "req" } else { "resp" };
                    d.ex(json!({"op":"set_eid","ctx":c,"half":half,"eid":e}));
                }
                12 => {
                    // encoders on the endpoint itself do not touch its EID
                    let name = *d.g.pick(&REQ_NAMES);
                    let a = d.rand_req_args(name, src);
                    d.enc_req(c, name, a);
                    let a = d.rand_resp_args("get_endpoint_id", src, 0);
                    d.enc_resp(c, "get_endpoint_id", a);
                }
                13 => {
                    // reserved EIDs 0x00 / 0xFF: outside the property's range, either behaviour accepted
                    let mut p = forge_req(d, 1, "set_endpoint_id", json!({"dst":addr,"operation":0,"eid":1}), src, iid, 0);
                    if p.len() < 14 {
                        continue;
                    }
                    p[12] = if d.g.chance(1, 2) { 0 } else { 0xFF };
                    fix_pec(&mut p);
                    d.process(c, &p);
                }
                14 => {
                    // unsupported operation values and commands
                    let mut p = forge_req(d, 1, "set_endpoint_id", json!({"dst":addr,"operation":0,"eid":9}), src, iid, 0);
                    if p.len() < 14 {
                        continue;
                    }
                    p[11] = 2 + d.g.below(254) as u8;
                    fix_pec(&mut p);
                    d.process(c, &p);
                }
                _ => {
                    let u = d.g.bytes(16);
                    d.ex(json!({"op":"set_uuid","ctx":c,"uuid":jb(&u)}));
                }
            }
        }
    }
}

/// C14: every configuration size 0..=16 (an endpoint without vendor ID sets is a legal configuration: every
/// selector is then out of range), every selector below n in every order.
pub fn vendor_enum(d: &mut D) {
    d.std_ctxs();
    let reps = if d.thorough { 40 } else { 3 };
    for n in 0..=16usize {
        for rep in 0..reps {
            let vs: Vec<(u8, [u8; 4], [u8; 2])> = (0..n)
                .map(|i| {
                    let f = match rep % 3 {
                        0 => d.g.below(2) as u8,
                        1 => (i % 2) as u8,
                        _ => ((i + 1) % 2) as u8,
                    };
                    let b = d.g.bytes(6);
                    (f, if f == 0 { [0, 0, b[2], b[3]] } else { [b[0], b[1], b[2], b[3]] }, [b[4], b[5]])
                })
                .collect();
            // related sets: some configurations repeat a set or vary a single field of another one
            let mut vs = vs;
            if rep % 3 != 0 && n >= 2 {
                for _ in 0..(1 + n / 4) {
                    let i = d.g.below(n as u64) as usize;
                    let j = if d.g.chance(1, 2) { n - 1 } else { d.g.below(n as u64) as usize };
                    if i != j {
                        vs[i] = vs[j];
                        if d.g.chance(1, 2) {
                            vs[i].2[1] = vs[i].2[1].wrapping_add(1);
                        }
                    }
                }
            }
            let addr = d.g.byte() & 0x7F;
            d.new_ctx(5, addr, &[0x7E, 0x7F], &vs);
            let ask = |d: &mut D, s: u64| -> Value {
                let src = d.g.byte() & 0x7F;
                let iid = d.g.byte() & 0x1F;
                let p = forge_req(d, 1, "get_vendor_defined_message_support", json!({"dst":addr,"selector":s}), src, iid, 0);
                d.process(5, &p)
            };
            // follow the selectors as a requester would (driven by the real answers)
            let mut s = 0u64;
            for _ in 0..20 {
                let e = ask(d, s);
                let rb = crate::runner::bytes(&e["rbuf"]);
                if rb.len() < 14 || rb[11] != 0 {
                    break;
                }
                let nxt = rb[12] as u64;
                if nxt == 0xFF || nxt as usize >= n {
                    break;
                }
                s = nxt;
            }
            if n == 0 {
                for s in [0u64, 1, 0xFE, 0xFF] {
                    ask(d, s);
                }
            }
            // every selector below n, in random order, repeated, interleaved with other traffic
            let mut order: Vec<u64> = (0..n as u64).collect();
            for i in (1..order.len()).rev() {
                let j = d.g.below(i as u64 + 1) as usize;
                order.swap(i, j);
            }
            for s in order.iter() {
                if d.g.chance(1, 3) {
                    // a vendor support *response* from some peer, with a selector around ours, arrives first
                    let sel = *d.g.pick(&[*s, *s + 1, n as u64, (n as u64).saturating_sub(1), 0xFF]);
                    let vl = *d.g.pick(&[3usize, 5, 7]);
                    let vid = d.g.bytes(vl);
                    let p = d.enc_resp(1, "get_vendor_defined_message_support", json!({"dst":addr,"cc":0,"selector":sel & 0xFF,"vid":jb(&vid)}));
                    d.process(5, &p);
                }
                ask(d, *s);
                if d.g.chance(1, 3) {
                    let p = forge_req(d, 1, "get_endpoint_id", json!({"dst":addr}), 0x11, 3, 0);
                    d.process(5, &p);
                }
                if d.g.chance(1, 4) {
                    ask(d, *s);
                }
            }
        }
    }
}

/// C15: message type lists of every length, UUID update sequences, interleaved traffic.
pub fn identity(d: &mut D) {
    d.std_ctxs();
    let reps = if d.thorough { 30 } else { 3 };
    for n in 0..=30usize {
        for rep in 0..reps {
            let mut mts = d.g.bytes(n);
            // configured types that are also meaningful elsewhere: message type code points, query values
            if rep % 2 == 0 {
                for (i, t) in [0x7Eu8, 0x7F, 0x05, 0x06, 0x00, 0xFF, 0x01].iter().enumerate() {
                    if i < mts.len() {
                        mts[i] = *t;
                    }
                }
            }
            let addr = d.g.byte() & 0x7F;
            if rep % 3 == 1 {
                d.new_ctx(5, addr, &mts, &[]);
            } else {
                d.new_ctx(5, addr, &mts, &[(0, [0, 0, 1, 2], [3, 4])]);
            }
            // the order of the three queries rotates from call to call, so that each of them is at times the
            // last packet before a state change (and is then retransmitted right after it, see D::ex)
            let mut turn = 0usize;
            let mut queries = |d: &mut D| {
                turn += 1;
                let names = ["get_message_type_suport", "get_endpoint_uuid", "get_mctp_version_support"];
                for k in 0..3 {
                    let name = names[(k + turn) % 3];
                    let a = if name == "get_mctp_version_support" { json!({"dst":addr,"query":*d.g.pick(&VERSION_QUERIES)}) } else { json!({"dst":addr}) };
                    let src = d.g.byte() & 0x7F;
                    let iid = d.g.byte() & 0x1F;
                    let p = forge_req(d, 1, name, a, src, iid, 0);
                    d.process(5, &p);
                }
            };
            queries(d); // UUID is all zero before any update
            if n % 4 == 1 {
                // ordered UUID histories: X, nil, X, Y, X
                let x = d.g.bytes(16);
                let y = d.g.bytes(16);
                for u in [x.clone(), vec![0u8; 16], x.clone(), y, x, vec![0xFFu8; 16], vec![0u8; 16]] {
                    d.ex(json!({"op":"set_uuid","ctx":5,"uuid":jb(&u)}));
                    queries(d);
                }
            }
            if n % 5 == 2 || n == 30 {
                // every value of the version query byte (the configured message types among them)
                for qb in 0..=255u16 {
                    let mut q: Vec<u8> = vec![addr << 1, 0x0F, 9, 0x23, 0x01, addr, 0x11, 0xC8, 0x00, 0x80 | (qb as u8 & 0x1F), 0x04, qb as u8, 0];
                    fix_pec(&mut q);
                    d.process(5, &q);
                }
            }
            for _ in 0..4 {
                match d.g.below(5) {
                    0 => {
                        let u = if d.g.chance(1, 5) { vec![0u8; 16] } else { d.g.bytes(16) };
                        d.ex(json!({"op":"set_uuid","ctx":5,"uuid":jb(&u)}));
                    }
                    1 => {
                        let eid = 1 + d.g.below(254);
                        let p = forge_req(d, 1, "set_endpoint_id", json!({"dst":addr,"operation":0,"eid":eid}), 0x10, 1, 0);
                        d.process(5, &p);
                    }
                    2 => {
                        // a UUID response from somebody else must not install a UUID
                        let u = d.g.bytes(16);
                        let p = d.enc_resp(1, "get_endpoint_uuid", json!({"dst":addr,"cc":0,"uuid":jb(&u)}));
                        d.process(5, &p);
                        let t = d.g.bytes(3);
                        let p = d.enc_resp(1, "get_message_type_suport", json!({"dst":addr,"cc":0,"types":jb(&t)}));
                        d.process(5, &p);
                    }
                    3 => {
                        let p = forge_req(d, 1, "get_vendor_defined_message_support", json!({"dst":addr,"selector":0}), 0x10, 1, 0);
                        d.process(5, &p);
                    }
                    _ => {
                        let mut p = forge_req(d, 1, "get_endpoint_uuid", json!({"dst":addr}), 0x10, 1, 0);
                        if !p.is_empty() {
                            let i = d.g.below(p.len() as u64) as usize;
                            p[i] ^= 0x04;
                        }
                        d.process(5, &p);
                    }
                }
                queries(d);
            }
        }
    }
}

/// C17: the length probe over three-byte prefixes, continuations, lengths and contexts.
pub fn probe(d: &mut D) {
    d.std_ctxs();
    // inputs shorter than three bytes
    for c in 0..3 {
        d.get_length(c, &[]);
        for b in [0u8, 0x0F, 0xFF] {
            d.get_length(c, &[b]);
            d.get_length(c, &[b, 0x0F]);
            d.get_length(c, &[0x0F, b]);
        }
    }
    // all 256 command-code bytes x edge values of the other two, with assorted continuations
    for b1 in 0..=255u16 {
        for b0 in [0u8, 1, 0x46, 0x0F, 0xFF] {
            for b2 in [0u8, 1, 0x0F, 0x7F, 0x80, 0xFB, 0xFC, 0xFF] {
                let n = *d.g.pick(&[0usize, 1, 5, 40]);
                let mut q = vec![b0, b1 as u8, b2];
                q.extend_from_slice(&d.g.bytes(n));
                let c = d.g.below(3);
                d.get_length(c, &q);
            }
        }
    }
    // all 256 byte counts under the MCTP command code
    for b2 in 0..=255u16 {
        for c in 0..3 {
            let n = d.g.below(300) as usize;
            let mut q = vec![d.g.byte(), 0x0F, b2 as u8];
            q.extend_from_slice(&d.g.bytes(n));
            d.get_length(c, &q);
        }
    }
    // exhaustive batches: for each (b1, b2) every b0 and several tails.  The tails change from batch to batch
    // and are partly related to the probing context (its address, the EID it was given, header-like bytes)
    let ctx_vals: [[u8; 2]; 3] = [[0x23, 0x00], [0x51, 0x00], [0x7F, 0x42]]; // (address, EID) of the standard contexts
    for b1 in 0..=255u64 {
        for b2 in 0..=255u64 {
            if !d.thorough && !(b1 == 0x0F || b1 == 0x0E || b1 == 0x10 || b1 == 0x8F || b1 == 0x1F || b1 == 0x07 || b2 == b1 || (b1 * 7 + b2) % 61 == 0) {
                continue;
            }
            let c = (b1 + b2) % 3;
            let [a, e] = ctx_vals[c as usize];
            let related = vec![(a << 1) | 1, 0x01, a, e, 0xC8, 0x00, 0x80, 0x02];
            let related2 = vec![(e << 1) | 1, 0x01, e, a, 0xC8];
            let n1 = d.g.below(12) as usize;
            let tails: Vec<Vec<u8>> = vec![vec![], vec![0x0F], d.g.bytes(n1), vec![0x0F; 3], related, related2, d.g.bytes(60)];
            let tj: Vec<Value> = tails.iter().map(|t| jb(t)).collect();
            d.ex(json!({"op":"batch_get_length","ctx":c,"b1":b1,"b2":b2,"tails":tj}));
        }
    }
}

/// spec -> impl transition tour.  The input alphabet of the bounded Endpoint model (packets, accessor
/// values, UUIDs, configuration) is exported by TLC (GenEndpoint.tla, "ALPHA" line) into the file named
/// by VERIF_ALPHABET.  The abstract state of a context is (request-half EID, response-half EID, UUID);
/// every action of the alphabet is executed from every abstract state, navigating between states with
/// the accessors.  The recorded trace is validated like any other.
pub fn tour(d: &mut D) {
    let path = std::env::var("VERIF_ALPHABET").unwrap_or_else(|_| {
        eprintln!("harness: the tour family needs VERIF_ALPHABET (written by ./check from TLC's output)");
        std::process::exit(2)
    });
    let txt = std::fs::read_to_string(&path).unwrap_or_else(|e| {
        eprintln!("harness: cannot read {}: {}", path, e);
        std::process::exit(2)
    });
    let a: Value = serde_json::from_str(&txt).unwrap_or_else(|e| {
        eprintln!("harness: bad alphabet JSON: {}", e);
        std::process::exit(2)
    });
    let packets: Vec<Vec<u8>> = a["packets"].as_array().unwrap().iter().map(crate::runner::bytes).collect();
    let uuids: Vec<Vec<u8>> = a["uuids"].as_array().unwrap().iter().map(crate::runner::bytes).collect();
    let mut eids: Vec<u8> = a["eids"].as_array().unwrap().iter().map(|x| x.as_u64().unwrap() as u8).collect();
    // EIDs that packets of the alphabet can assign
    for p in packets.iter() {
        if p.len() == 14 && p[8] == 0 && p[9] & 0x80 != 0 && p[10] == 1 && !eids.contains(&p[12]) {
            eids.push(p[12]);
        }
    }
    if !eids.contains(&0) {
        eids.push(0);
    }
    eids.sort();
    let ctxs: Vec<u64> = a["ctxs"].as_array().unwrap().iter().map(|x| x.as_u64().unwrap()).collect();
    let cfgs = a["cfg"].as_array().unwrap();
    for (k, c) in ctxs.iter().enumerate() {
        let cf = &cfgs[k];
        d.ex(json!({"op":"new","ctx":c,"addr":cf["addr"],"msg_types":cf["mts"],"vendor_ids":cf["vids"]}));
    }
    let c = ctxs[0];
    let mut all_uuids: Vec<Vec<u8>> = vec![vec![0u8; 16]];
    all_uuids.extend(uuids.iter().cloned());
    // current abstract state, learned from the events
    let mut cur = (0u8, 0u8, 0usize);
    let shard = shard_of();
    let mut k = 0usize;
    for (ui, u) in all_uuids.iter().enumerate() {
        for &er in eids.iter() {
            for &es in eids.iter() {
                k += 1;
                if k % shard.1 != shard.0 {
                    continue;
                }
                let target = (er, es, ui);
                // one action at a time from the target state
                // from this abstract state the encoders report the response half's EID and change nothing
                let nact = 2 * packets.len() + 2 * eids.len() + uuids.len() + 3;
                for act in 0..nact {
                    // navigate
                    if cur.2 != target.2 {
                        d.ex(json!({"op":"set_uuid","ctx":c,"uuid":jb(u)}));
                        cur.2 = target.2;
                    }
                    if cur.0 != target.0 {
                        d.ex(json!({"op":"set_eid","ctx":c,"half":"req","eid":target.0}));
                        cur.0 = target.0;
                    }
                    if cur.1 != target.1 {
                        d.ex(json!({"op":"set_eid","ctx":c,"half":"resp","eid":target.1}));
                        cur.1 = target.1;
                    }
                    // act
                    let e = if act < packets.len() {
                        d.process(c, &packets[act])
                    } else if act < 2 * packets.len() {
                        d.decode(c, &packets[act - packets.len()])
                    } else if act < 2 * packets.len() + eids.len() {
                        d.ex(json!({"op":"set_eid","ctx":c,"half":"req","eid":eids[act - 2 * packets.len()]}))
                    } else if act < 2 * packets.len() + 2 * eids.len() {
                        d.ex(json!({"op":"set_eid","ctx":c,"half":"resp","eid":eids[act - 2 * packets.len() - eids.len()]}))
                    } else if act < 2 * packets.len() + 2 * eids.len() + uuids.len() {
                        let ix = act - 2 * packets.len() - 2 * eids.len();
                        cur.2 = ix + 1;
                        d.ex(json!({"op":"set_uuid","ctx":c,"uuid":jb(&uuids[ix])}))
                    } else {
                        let poison = d.poison();
                        match act - (2 * packets.len() + 2 * eids.len() + uuids.len()) {
                            0 => d.ex(json!({"op":"enc_resp","ctx":c,"name":"set_endpoint_id","args":{"dst":17,"cc":0,"assignment":0,"allocation":0},"buf_len":20,"poison":poison})),
                            1 => d.ex(json!({"op":"enc_resp","ctx":c,"name":"get_endpoint_id","args":{"dst":17,"cc":0,"endpoint_type":0,"id_type":0,"fairness":0},"buf_len":20,"poison":poison})),
                            _ => d.ex(json!({"op":"enc_req","ctx":c,"name":"set_endpoint_id","args":{"dst":17,"operation":0,"eid":9},"buf_len":20,"poison":poison})),
                        }
                    };
                    cur.0 = e["post"]["eid_req"].as_u64().unwrap() as u8;
                    cur.1 = e["post"]["eid_resp"].as_u64().unwrap() as u8;
                }
            }
        }
    }
}

/// VERIF_SHARD = "i/n": this run covers the i-th of n slices of a family's outer loop.
pub fn shard_of() -> (usize, usize) {
    match std::env::var("VERIF_SHARD") {
        Ok(s) => {
            let mut it = s.split('/');
            let i: usize = it.next().and_then(|x| x.parse().ok()).unwrap_or(0);
            let n: usize = it.next().and_then(|x| x.parse().ok()).unwrap_or(1);
            (i % n.max(1), n.max(1))
        }
        Err(_) => (0, 1),
    }
}

/// Two-context bus simulation (the code-level counterpart of spec/Link.tla): a real requester context brings
/// up a real responder context over a faulty wire.  The responder receives the way a driver uses the API
/// (length probe on a three-byte prefix, read that many bytes, process_packet); the requester decodes every
/// response it gets.  Faults: drop, truncate, one burst of <= 8 bits, duplicate (delivered late).
pub fn bus(d: &mut D) {
    d.std_ctxs();
    let rounds = if d.thorough { 300 } else { 40 };
    for round in 0..rounds {
        let bo_addr = d.g.byte() & 0x7F;
        let ep_addr = d.g.byte() & 0x7F;
        let nv = 1 + d.g.below(4) as usize;
        let vs: Vec<(u8, [u8; 4], [u8; 2])> = (0..nv)
            .map(|_| {
                let f = d.g.below(2) as u8;
                let b = d.g.bytes(6);
                (f, if f == 0 { [0, 0, b[2], b[3]] } else { [b[0], b[1], b[2], b[3]] }, [b[4], b[5]])
            })
            .collect();
        let nm = d.g.below(5) as usize;
        let mts = d.g.bytes(nm);
        d.new_ctx(7, bo_addr, &[], &[(0, [0, 0, 0, 1], [0, 0])]);
        d.new_ctx(8, ep_addr, &mts, &vs);
        if round % 2 == 0 {
            let u = d.g.bytes(16);
            d.ex(json!({"op":"set_uuid","ctx":8,"uuid":jb(&u)}));
        }
        let new_eid = 1 + d.g.below(254);
        let script: Vec<(&str, Value)> = vec![
            ("set_endpoint_id", json!({"dst":ep_addr,"operation":d.g.below(2),"eid":new_eid})),
            ("get_endpoint_id", json!({"dst":ep_addr})),
            ("get_endpoint_uuid", json!({"dst":ep_addr})),
            ("get_mctp_version_support", json!({"dst":ep_addr,"query":0xFF})),
            ("get_message_type_suport", json!({"dst":ep_addr})),
        ];
        let mut iid = d.g.byte() & 0x1F;
        let mut late: Option<Vec<u8>> = None;
        // one exchange: returns the response bytes the requester accepted, if any
        let exchange = |d: &mut D, name: &str, args: Value, iid: u8, late: &mut Option<Vec<u8>>| -> Option<Vec<u8>> {
            for _try in 0..3 {
                let mut p = d.enc_req(7, name, args.clone());
                if p.len() < 12 {
                    return None;
                }
                p[9] = 0x80 | iid;
                fix_pec(&mut p);
                let mut deliveries: Vec<Vec<u8>> = Vec::new();
                match d.g.below(10) {
                    0 => {} // dropped
                    1 => {
                        let k = 1 + d.g.below(p.len() as u64 - 1) as usize;
                        deliveries.push(p[..k].to_vec());
                    }
                    2 | 3 => {
                        let bits = p.len() * 8;
                        let off = d.g.below(bits as u64) as usize;
                        let pat = 0x80 | d.g.byte();
                        let mut q = p.clone();
                        for b in 0..8 {
                            if pat & (0x80 >> b) != 0 && off + b < bits {
                                q[(off + b) / 8] ^= 0x80 >> ((off + b) % 8);
                            }
                        }
                        deliveries.push(q);
                    }
                    4 => {
                        deliveries.push(p.clone());
                        *late = Some(p.clone()); // a duplicate that turns up during a later exchange
                    }
                    _ => deliveries.push(p.clone()),
                }
                if let Some(l) = late.take() {
                    if d.g.chance(1, 2) {
                        deliveries.insert(0, l);
                    } else {
                        *late = Some(l);
                    }
                }
                let mut accepted: Option<Vec<u8>> = None;
                for q in deliveries {
                    // the responder's driver: probe, read, process
                    if q.len() < 3 {
                        d.get_length(8, &q);
                        continue;
                    }
                    let pr = d.get_length(8, &q[..3]);
                    if pr["res"]["kind"] != "ok" {
                        continue;
                    }
                    let want = pr["res"]["len"].as_u64().unwrap() as usize;
                    let rx = &q[..want.min(q.len())];
                    let e = d.process(8, rx);
                    let rl = e["res"]["resp_len"].as_i64().unwrap_or(-1);
                    if rl >= 0 {
                        let r = crate::runner::bytes(&e["rbuf"]);
                        // the requester's side: decode (and process: a response never gets a response)
                        let de = d.decode(7, &r);
                        d.process(7, &r);
                        if r.len() >= 12
                            && (de["res"]["kind"] == "ok" || de["res"]["err"] == "Unsuccessful")
                            && r[9] & 0x1F == iid
                            && r[10] == p[10]
                            && accepted.is_none()
                        {
                            accepted = Some(r);
                        }
                    }
                }
                if accepted.is_some() {
                    return accepted;
                }
            }
            None
        };
        for (name, args) in script {
            exchange(d, name, args, iid, &mut late);
            iid = (iid + 1) & 0x1F;
        }
        // follow the vendor set selectors as far as the answers lead
        let mut sel = 0u64;
        for _ in 0..(nv + 2) {
            let r = exchange(d, "get_vendor_defined_message_support", json!({"dst":ep_addr,"selector":sel}), iid, &mut late);
            iid = (iid + 1) & 0x1F;
            match r {
                Some(r) if r.len() >= 14 && r[11] == 0 && r[12] != 0xFF => sel = r[12] as u64,
                _ => break,
            }
        }
    }
}
