//! Executes scenario commands against the real libmctp and records one event per call.
//!
//! The runner contains no reference implementation of the protocol: it calls the library,
//! observes (results, buffers, payload offsets by pointer arithmetic, panics as data, both EID
//! accessors before and after) and serialises.  All expectations are computed by TLC from the
//! TLA+ specification when the recorded trace is validated.

use libmctp::base_packet::{MCTPMessageBodyHeader, MCTPTransportHeader, MessageType};
use libmctp::control_packet::{
    AllocateEndpointIDOperation, CommandCode, CompletionCode, MCTPControlMessageHeader,
    MCTPGetEndpointIDEndpointIDType, MCTPGetEndpointIDEndpointType,
    MCTPSetEndpointIDAllocationStatus, MCTPSetEndpointIDAssignmentStatus,
    MCTPSetEndpointIDOperations, MCTPVersionQuery, RoutingInformationUpdateEntryType,
};
use libmctp::errors::{ControlMessageError, DecodeError};
use libmctp::mctp_traits::SMBusMCTPRequestResponse;
use libmctp::smbus::MCTPSMBusContext;
use libmctp::smbus_proto::{MCTPSMBusHeader, SMBusRoutingInformationUpdateEntry};
use libmctp::vendor_packets::{IANAMessageFormat, PCIMessageFormat, VendorIDFormat};
use serde_json::{json, Map, Value};
use std::collections::BTreeMap;
use std::io::Write;
use std::panic::{catch_unwind, AssertUnwindSafe};

pub struct Runner {
    ctxs: BTreeMap<u64, MCTPSMBusContext<'static>>,
    pub seq: u64,
    out: Option<Box<dyn Write>>,
    pub keep: bool,
    pub events: Vec<Value>,
    /// One long-lived receive buffer, as a driver has: every input of decode_packet / get_length /
    /// process_packet is copied into it and handed over as a slice of it, so that consecutive calls see
    /// the same buffer address with different contents (state keyed on the address of the input, or left
    /// behind in relation to it, is exercised deterministically rather than at the allocator's whim).
    rx: Vec<u8>,
}

const RX_CAP: usize = 8192;

pub fn bytes(v: &Value) -> Vec<u8> {
    v.as_array()
        .unwrap_or_else(|| bad(&format!("expected byte array, got {}", v)))
        .iter()
        .map(|x| x.as_u64().unwrap_or_else(|| bad("byte not a number")) as u8)
        .collect()
}

pub fn bad(msg: &str) -> ! {
    eprintln!("harness: malformed command: {}", msg);
    std::process::exit(2)
}

fn num(v: &Value, k: &str) -> u64 {
    v.get(k)
        .and_then(|x| x.as_u64())
        .unwrap_or_else(|| bad(&format!("missing numeric field '{}' in {}", k, v)))
}

fn st<'a>(v: &'a Value, k: &str) -> &'a str {
    v.get(k)
        .and_then(|x| x.as_str())
        .unwrap_or_else(|| bad(&format!("missing string field '{}' in {}", k, v)))
}

fn jb(b: &[u8]) -> Value {
    Value::Array(b.iter().map(|x| json!(*x)).collect())
}

// The three conversions below end in a wildcard arm so that a variant added to a public enum of the library
// does not stop the harness from building (a build failure would be a tool error, not a verdict): an unknown
// variant is recorded as a value / name the specification does not know, which the monitor rejects wherever a
// property speaks about the reported type or error.
#[allow(unreachable_patterns)]
fn mt_num(t: &MessageType) -> u8 {
    match t {
        MessageType::MCtpControl => 0x00,
        MessageType::SpdmOverMctp => 0x05,
        MessageType::SecuredMessages => 0x06,
        MessageType::VendorDefinedPCI => 0x7E,
        MessageType::VendorDefinedIANA => 0x7F,
        MessageType::Invalid => 0xFF,
        _ => 0xEE,
    }
}

fn mt_of(n: u64) -> MessageType {
    match n {
        0x00 => MessageType::MCtpControl,
        0x05 => MessageType::SpdmOverMctp,
        0x06 => MessageType::SecuredMessages,
        0x7E => MessageType::VendorDefinedPCI,
        0x7F => MessageType::VendorDefinedIANA,
        0xFF => MessageType::Invalid,
        _ => bad("message type variant"),
    }
}

fn cc_of(n: u64) -> CompletionCode {
    match n {
        0 => CompletionCode::Success,
        1 => CompletionCode::Error,
        2 => CompletionCode::ErrorInvalidData,
        3 => CompletionCode::ErrorInvalidLength,
        4 => CompletionCode::ErrorNotReady,
        5 => CompletionCode::ErrorUnsupportedCmd,
        _ => bad("completion code variant"),
    }
}

#[allow(unreachable_patterns)]
fn cc_num(c: &CompletionCode) -> u8 {
    match c {
        CompletionCode::Success => 0,
        CompletionCode::Error => 1,
        CompletionCode::ErrorInvalidData => 2,
        CompletionCode::ErrorInvalidLength => 3,
        CompletionCode::ErrorNotReady => 4,
        CompletionCode::ErrorUnsupportedCmd => 5,
        _ => 0xEE,
    }
}

#[allow(unreachable_patterns)]
fn err_json(t: &MessageType, e: &DecodeError) -> Value {
    let (name, cc) = match e {
        DecodeError::Unknown => ("Unknown", 0),
        DecodeError::ControlMessage(c) => match c {
            ControlMessageError::Unknown => ("CtlUnknown", 0),
            ControlMessageError::InvalidRequestDataLength => ("InvalidRequestDataLength", 0),
            ControlMessageError::InvalidControlHeader => ("InvalidControlHeader", 0),
            ControlMessageError::UnsuccessfulCompletionCode(cc) => ("Unsuccessful", cc_num(cc)),
            ControlMessageError::InvalidPEC => ("InvalidPEC", 0),
            _ => ("UnknownVariant", 0),
        },
        _ => ("UnknownVariant", 0),
    };
    json!({"kind":"err","type":mt_num(t),"err":name,"cc":cc})
}

fn panic_json(p: Box<dyn std::any::Any + Send>) -> Value {
    let msg = if let Some(s) = p.downcast_ref::<&str>() {
        s.to_string()
    } else if let Some(s) = p.downcast_ref::<String>() {
        s.clone()
    } else {
        "?".to_string()
    };
    let mut m: String = msg.chars().take(120).collect();
    m.retain(|c| c.is_ascii() && c != '"' && c != '\\');
    json!({"kind":"panic","msg":m})
}

fn span(p: &[u8], payload: &[u8]) -> (usize, usize) {
    let lo = (payload.as_ptr() as usize).wrapping_sub(p.as_ptr() as usize);
    (lo, lo.wrapping_add(payload.len()))
}

fn decode_json(ctx: &MCTPSMBusContext, p: &[u8]) -> Value {
    match catch_unwind(AssertUnwindSafe(|| ctx.decode_packet(p))) {
        Ok(Ok((t, payload))) => {
            let (lo, hi) = span(p, payload);
            json!({"kind":"ok","type":mt_num(&t),"lo":lo,"hi":hi})
        }
        Ok(Err((t, e))) => err_json(&t, &e),
        Err(pn) => panic_json(pn),
    }
}

fn length_json(ctx: &MCTPSMBusContext, p: &[u8]) -> Value {
    match catch_unwind(AssertUnwindSafe(|| ctx.get_length(p))) {
        Ok(Ok(n)) => json!({"kind":"ok","len":n}),
        Ok(Err((t, e))) => {
            let mut v = err_json(&t, &e);
            v["len"] = json!(0);
            v
        }
        Err(pn) => panic_json(pn),
    }
}

fn set_op(n: u64) -> MCTPSetEndpointIDOperations {
    match n {
        0 => MCTPSetEndpointIDOperations::SetEID,
        1 => MCTPSetEndpointIDOperations::ForceEID,
        2 => MCTPSetEndpointIDOperations::ResetEID,
        3 => MCTPSetEndpointIDOperations::SetDiscoveredFlag,
        _ => bad("set eid operation variant"),
    }
}

fn version_query(n: u64) -> MCTPVersionQuery {
    match n {
        0xFF => MCTPVersionQuery::MCTPBaseSpec,
        0 => MCTPVersionQuery::MCTPControlProcMessage,
        1 => MCTPVersionQuery::DSP0241,
        2 => MCTPVersionQuery::DSP0261,
        3 => MCTPVersionQuery::DSP0261_2,
        _ => bad("version query variant"),
    }
}

fn alloc_op(n: u64) -> AllocateEndpointIDOperation {
    match n {
        0 => AllocateEndpointIDOperation::AllocateEIDs,
        1 => AllocateEndpointIDOperation::ForceAllocation,
        2 => AllocateEndpointIDOperation::GetAllocationInformation,
        _ => bad("allocate operation variant"),
    }
}

fn arr16(v: &Value) -> [u8; 16] {
    let b = bytes(v);
    if b.len() != 16 {
        bad("uuid must be 16 bytes");
    }
    let mut a = [0u8; 16];
    a.copy_from_slice(&b);
    a
}

fn arr4(v: &Value) -> [u8; 4] {
    let b = bytes(v);
    if b.len() != 4 {
        bad("expected 4 bytes");
    }
    [b[0], b[1], b[2], b[3]]
}

/// Lossless summary of a poisoned buffer beyond the first `n` bytes: every (index, value) that
/// no longer holds the poison byte.
fn tail_diff(buf: &[u8], n: usize, poison: u8) -> Value {
    let mut v: Vec<Value> = Vec::new();
    for (i, b) in buf.iter().enumerate().skip(n) {
        if *b != poison {
            v.push(json!([i, *b]));
        }
    }
    Value::Array(v)
}

/// Distinct results of the length probe over every prefix (>= 3 bytes) of a packet.
fn probe_prefixes(ctx: &MCTPSMBusContext, pkt: &[u8]) -> Value {
    let mut seen: Vec<Value> = Vec::new();
    for k in 3..=pkt.len() {
        let r = length_json(ctx, &pkt[..k]);
        if !seen.contains(&r) {
            seen.push(r);
        }
    }
    Value::Array(seen)
}

impl Runner {
    pub fn new(out: Option<Box<dyn Write>>) -> Self {
        Runner {
            ctxs: BTreeMap::new(),
            seq: 0,
            out,
            keep: false,
            events: Vec::new(),
            rx: vec![0u8; RX_CAP],
        }
    }

    pub fn finish(&mut self) {
        if let Some(o) = self.out.as_mut() {
            o.flush().expect("flush trace");
        }
    }

    /// copies an input into the long-lived receive buffer (grown once, up front, never reallocated
    /// for inputs up to RX_CAP bytes) and returns its length
    fn load_rx(&mut self, p: &[u8]) -> usize {
        if self.rx.len() < p.len().max(RX_CAP) {
            self.rx.resize(p.len().max(RX_CAP), 0);
        }
        self.rx[..p.len()].copy_from_slice(p);
        // bytes beyond the input keep whatever the previous input left there, as in a real driver
        p.len()
    }

    fn ctx(&self, c: u64) -> &MCTPSMBusContext<'static> {
        self.ctxs
            .get(&c)
            .unwrap_or_else(|| bad(&format!("unknown context {}", c)))
    }

    fn eids(&self, c: u64) -> Value {
        let x = self.ctx(c);
        json!({"eid_req": x.get_request().get_eid(), "eid_resp": x.get_response().get_eid()})
    }

    /// Execute one command, append the event to the trace and return it.
    pub fn exec(&mut self, cmd: &Value) -> Value {
        let mut ev: Map<String, Value> = Map::new();
        // copy the command's input fields (everything that is not an observation)
        for (k, v) in cmd.as_object().unwrap_or_else(|| bad("command not an object")) {
            match k.as_str() {
                "i" | "pre" | "post" | "res" | "dec" | "buf" | "rbuf" | "probe" | "rprobe" | "tail_diff" | "rtail_diff" | "fields"
                | "raw_after" | "variant" | "results" | "ok" | "raw_out" | "wide"
                | "variant_value" | "calls" | "smbus" | "transport" => {}
                _ => {
                    ev.insert(k.clone(), v.clone());
                }
            }
        }
        self.seq += 1;
        ev.insert("i".into(), json!(self.seq));
        let op = st(cmd, "op").to_string();
        match op.as_str() {
            "new" => self.op_new(cmd, &mut ev),
            "set_uuid" => {
                let c = num(cmd, "ctx");
                let u = bytes(&cmd["uuid"]);
                if u.len() != 16 {
                    bad("set_uuid wants 16 bytes");
                }
                ev.insert("pre".into(), self.eids(c));
                let x = self
                    .ctxs
                    .get_mut(&c)
                    .unwrap_or_else(|| bad("unknown context"));
                x.set_uuid(&u);
                ev.insert("post".into(), self.eids(c));
            }
            "set_eid" => {
                let c = num(cmd, "ctx");
                let e = num(cmd, "eid") as u8;
                ev.insert("pre".into(), self.eids(c));
                match st(cmd, "half") {
                    "req" => self.ctx(c).get_request().set_eid(e),
                    "resp" => self.ctx(c).get_response().set_eid(e),
                    _ => bad("half"),
                }
                ev.insert("post".into(), self.eids(c));
            }
            "enc_req" | "enc_resp" | "enc_vendor" | "enc_gen" => self.op_encode(&op, cmd, &mut ev),
            "decode" => {
                let c = num(cmd, "ctx");
                let n = self.load_rx(&bytes(&cmd["p"]));
                let p = &self.rx[..n];
                ev.insert("pre".into(), self.eids(c));
                ev.insert("res".into(), decode_json(self.ctx(c), p));
                ev.insert("post".into(), self.eids(c));
            }
            "get_length" => {
                let c = num(cmd, "ctx");
                let n = self.load_rx(&bytes(&cmd["p"]));
                let p = &self.rx[..n];
                ev.insert("pre".into(), self.eids(c));
                ev.insert("res".into(), length_json(self.ctx(c), p));
                ev.insert("post".into(), self.eids(c));
            }
            "process" => self.op_process(cmd, &mut ev),
            "gen_hdr" => {
                // the two public header generators of either half
                let c = num(cmd, "ctx");
                let dst = num(cmd, "dst") as u8;
                ev.insert("pre".into(), self.eids(c));
                let ctx = self.ctx(c);
                let half = st(cmd, "half").to_string();
                let r = catch_unwind(AssertUnwindSafe(|| -> (Vec<u8>, Vec<u8>) {
                    if half == "req" {
                        let h = ctx.get_request();
                        (h.generate_smbus_header(dst).0.to_vec(), h.generate_transport_header(dst).0.to_vec())
                    } else {
                        let h = ctx.get_response();
                        (h.generate_smbus_header(dst).0.to_vec(), h.generate_transport_header(dst).0.to_vec())
                    }
                }));
                match r {
                    Ok((s, t)) => {
                        ev.insert("res".into(), json!({"kind":"ok"}));
                        ev.insert("smbus".into(), jb(&s));
                        ev.insert("transport".into(), jb(&t));
                    }
                    Err(pn) => {
                        ev.insert("res".into(), panic_json(pn));
                    }
                }
                ev.insert("post".into(), self.eids(c));
            }
            "hdr_get" | "hdr_set" | "hdr_from_buf" | "hdr_new" => op_header(&op, cmd, &mut ev),
            "conv" => op_conv(cmd, &mut ev),
            "batch_get_length" => self.op_batch_len(cmd, &mut ev),
            _ => bad(&format!("unknown op '{}'", op)),
        }
        let v = Value::Object(ev);
        if let Some(o) = self.out.as_mut() {
            serde_json::to_writer(&mut *o, &v).expect("write trace");
            o.write_all(b"\n").expect("write trace");
            if self.seq % 2000 == 0 {
                o.flush().expect("flush trace");
            }
        }
        if self.keep {
            self.events.push(v.clone());
        }
        v
    }

    fn op_new(&mut self, cmd: &Value, _ev: &mut Map<String, Value>) {
        let c = num(cmd, "ctx");
        let addr = num(cmd, "addr") as u8;
        let mts: &'static [u8] = Box::leak(bytes(&cmd["msg_types"]).into_boxed_slice());
        let mut vids: Vec<VendorIDFormat> = Vec::new();
        for v in cmd["vendor_ids"]
            .as_array()
            .unwrap_or_else(|| bad("vendor_ids"))
        {
            let d = arr4(&v["data"]);
            let n = bytes(&v["num"]);
            if n.len() != 2 {
                bad("num must be 2 bytes");
            }
            vids.push(VendorIDFormat {
                format: num(v, "format") as u8,
                data: u32::from_be_bytes(d),
                numeric_value: u16::from_be_bytes([n[0], n[1]]),
            });
        }
        let vids: &'static [VendorIDFormat] = Box::leak(vids.into_boxed_slice());
        self.ctxs.insert(c, MCTPSMBusContext::new(addr, mts, vids));
    }

    fn op_encode(&mut self, op: &str, cmd: &Value, ev: &mut Map<String, Value>) {
        let c = num(cmd, "ctx");
        let a = &cmd["args"];
        let dst = num(a, "dst") as u8;
        let buf_len = num(cmd, "buf_len") as usize;
        let poison = num(cmd, "poison") as u8;
        let mut buf = vec![poison; buf_len];
        ev.insert("pre".into(), self.eids(c));
        let ctx = self.ctx(c);
        let r = catch_unwind(AssertUnwindSafe(|| -> Result<usize, ()> {
            let b = &mut buf[..];
            match op {
                "enc_req" => {
                    let rq = ctx.get_request();
                    match st(cmd, "name") {
                        "set_endpoint_id" => rq.set_endpoint_id(
                            dst,
                            set_op(num(a, "operation")),
                            num(a, "eid") as u8,
                            b,
                        ),
                        "get_endpoint_id" => rq.get_endpoint_id(dst, b),
                        "get_endpoint_uuid" => rq.get_endpoint_uuid(dst, b),
                        "get_mctp_version_support" => {
                            rq.get_mctp_version_support(dst, version_query(num(a, "query")), b)
                        }
                        "get_message_type_suport" => rq.get_message_type_suport(dst, b),
                        "get_vendor_defined_message_support" => {
                            rq.get_vendor_defined_message_support(dst, num(a, "selector") as u8, b)
                        }
                        "resolve_endpoint_id" => rq.resolve_endpoint_id(dst, num(a, "eid") as u8, b),
                        "allocate_endpoint_ids" => rq.allocate_endpoint_ids(
                            dst,
                            alloc_op(num(a, "operation")),
                            num(a, "pool_size") as u8,
                            num(a, "first_eid") as u8,
                            b,
                        ),
                        "routing_information_update" => {
                            let entries: Vec<SMBusRoutingInformationUpdateEntry<[u8; 4]>> = a
                                ["entries"]
                                .as_array()
                                .unwrap_or_else(|| bad("entries"))
                                .iter()
                                .map(|e| {
                                    // entries that the public constructor can express are built with it (entry
                                    // type 0-3, reserved nibble clear), the others from their raw bytes
                                    let b = arr4(e);
                                    if b[0] < 4 {
                                        SMBusRoutingInformationUpdateEntry::new(
                                            match b[0] {
                                                0 => RoutingInformationUpdateEntryType::SingleEndpointNotBridge,
                                                1 => RoutingInformationUpdateEntryType::EIDRangeIncludeBridge,
                                                2 => RoutingInformationUpdateEntryType::SingleEndpointBridge,
                                                _ => RoutingInformationUpdateEntryType::EIDRangeNotIncludeBridge,
                                            },
                                            b[1],
                                            b[2],
                                            b[3],
                                        )
                                    } else {
                                        SMBusRoutingInformationUpdateEntry::new_from_buf(b)
                                    }
                                })
                                .collect();
                            rq.routing_information_update(dst, &entries, b)
                        }
                        "get_routing_table_entries" => {
                            rq.get_routing_table_entries(dst, num(a, "handle") as u8, b)
                        }
                        "prepare_for_endpoint_discovery" => rq.prepare_for_endpoint_discovery(dst, b),
                        "endpoint_discovery" => rq.endpoint_discovery(dst, b),
                        "discovery_notify" => rq.discovery_notify(dst, b),
                        "get_network_id" => rq.get_network_id(dst, b),
                        "query_hop" => {
                            rq.query_hop(dst, num(a, "eid") as u8, mt_of(num(a, "msg_type")), b)
                        }
                        "resolve_uuid" => {
                            rq.resolve_uuid(dst, &arr16(&a["uuid"]), num(a, "handle") as u8, b)
                        }
                        "query_rate_limit" => rq.query_rate_limit(dst, b),
                        n => bad(&format!("unknown request encoder {}", n)),
                    }
                }
                "enc_resp" => {
                    let rs = ctx.get_response();
                    let cc = cc_of(num(a, "cc"));
                    match st(cmd, "name") {
                        "set_endpoint_id" => rs.set_endpoint_id(
                            cc,
                            dst,
                            match num(a, "assignment") {
                                0 => MCTPSetEndpointIDAssignmentStatus::Accpeted,
                                1 => MCTPSetEndpointIDAssignmentStatus::Rejected,
                                _ => bad("assignment"),
                            },
                            match num(a, "allocation") {
                                0 => MCTPSetEndpointIDAllocationStatus::NoIDPool,
                                1 => MCTPSetEndpointIDAllocationStatus::RequiresAllocation,
                                2 => MCTPSetEndpointIDAllocationStatus::AlreadyAllocated,
                                _ => bad("allocation"),
                            },
                            b,
                        ),
                        "get_endpoint_id" => rs.get_endpoint_id(
                            cc,
                            dst,
                            match num(a, "endpoint_type") {
                                0 => MCTPGetEndpointIDEndpointType::Simple,
                                1 => MCTPGetEndpointIDEndpointType::Bus,
                                _ => bad("endpoint_type"),
                            },
                            match num(a, "id_type") {
                                0 => MCTPGetEndpointIDEndpointIDType::DynamicEID,
                                1 => MCTPGetEndpointIDEndpointIDType::StaticEID,
                                2 => MCTPGetEndpointIDEndpointIDType::StaticPresentMatchEID,
                                3 => MCTPGetEndpointIDEndpointIDType::StaticPresentNoMatchEID,
                                _ => bad("id_type"),
                            },
                            num(a, "fairness") != 0,
                            b,
                        ),
                        "get_endpoint_uuid" => rs.get_endpoint_uuid(cc, dst, &arr16(&a["uuid"]), b),
                        "get_mctp_version_support" => rs.get_mctp_version_support(cc, dst, b),
                        "get_message_type_suport" => {
                            rs.get_message_type_suport(cc, dst, &bytes(&a["types"]), b)
                        }
                        "get_vendor_defined_message_support" => rs
                            .get_vendor_defined_message_support(
                                cc,
                                dst,
                                num(a, "selector") as u8,
                                &bytes(&a["vid"]),
                                b,
                            ),
                        n => bad(&format!("unknown response encoder {}", n)),
                    }
                }
                "enc_vendor" => {
                    let f = VendorIDFormat {
                        format: num(a, "format") as u8,
                        data: u32::from_be_bytes(arr4(&a["data"])),
                        numeric_value: num(a, "num") as u16,
                    };
                    ctx.get_request().vendor_defined(dst, &f, &bytes(&a["msg"]), b)
                }
                "enc_gen" => {
                    let hdr_bytes = bytes(&a["hdr"]);
                    let hdr: Option<&[u8]> = if num(a, "has_hdr") != 0 {
                        Some(&hdr_bytes[..])
                    } else {
                        if !hdr_bytes.is_empty() {
                            bad("has_hdr = 0 with a non-empty hdr");
                        }
                        None
                    };
                    let data = bytes(&a["data"]);
                    fn go<T: SMBusMCTPRequestResponse>(
                        h: &T,
                        kind: &str,
                        dst: u8,
                        hdr: &Option<&[u8]>,
                        data: &[u8],
                        b: &mut [u8],
                    ) -> Result<usize, ()> {
                        match kind {
                            "control" => h.generate_control_packet_bytes(dst, hdr, data, b),
                            "pci" => h.generate_pci_msg_packet_bytes(dst, hdr, data, b),
                            "iana" => h.generate_iana_msg_packet_bytes(dst, hdr, data, b),
                            "spdm" => h.generate_spdm_msg_packet_bytes(
                                dst,
                                MessageType::SpdmOverMctp,
                                hdr,
                                data,
                                b,
                            ),
                            "secured" => h.generate_spdm_msg_packet_bytes(
                                dst,
                                MessageType::SecuredMessages,
                                hdr,
                                data,
                                b,
                            ),
                            _ => bad("enc_gen kind"),
                        }
                    }
                    match st(cmd, "half") {
                        "req" => go(ctx.get_request(), st(cmd, "kind"), dst, &hdr, &data, b),
                        "resp" => go(ctx.get_response(), st(cmd, "kind"), dst, &hdr, &data, b),
                        _ => bad("half"),
                    }
                }
                _ => unreachable!(),
            }
        }));
        let res = match r {
            Ok(Ok(n)) => json!({"kind":"ok","len":n}),
            Ok(Err(())) => json!({"kind":"err","len":0}),
            Err(pn) => {
                let mut v = panic_json(pn);
                v["len"] = json!(0);
                v
            }
        };
        if let Some(n) = res.get("len").and_then(|x| x.as_u64()) {
            let n = n as usize;
            if res["kind"] == "ok" && n >= 3 && n <= buf.len() {
                ev.insert("probe".into(), probe_prefixes(ctx, &buf[..n]));
            }
        }
        let n = if res["kind"] == "ok" {
            (res["len"].as_u64().unwrap() as usize).min(buf.len())
        } else {
            0
        };
        ev.insert("res".into(), res);
        ev.insert("buf".into(), jb(&buf[..n]));
        ev.insert("tail_diff".into(), tail_diff(&buf, n, poison));
        ev.insert("post".into(), self.eids(c));
    }

    fn op_process(&mut self, cmd: &Value, ev: &mut Map<String, Value>) {
        let c = num(cmd, "ctx");
        let n = self.load_rx(&bytes(&cmd["p"]));
        let p = &self.rx[..n];
        let rbuf_len = num(cmd, "rbuf_len") as usize;
        let poison = num(cmd, "poison") as u8;
        let mut rbuf = vec![poison; rbuf_len];
        ev.insert("pre".into(), self.eids(c));
        let ctx = self.ctx(c);
        ev.insert("dec".into(), decode_json(ctx, p));
        let r = catch_unwind(AssertUnwindSafe(|| ctx.process_packet(p, &mut rbuf)));
        let res = match r {
            Ok(Ok(((t, payload), rl))) => {
                let (lo, hi) = span(p, payload);
                let rl: i64 = match rl {
                    Some(n) => n as i64,
                    None => -1,
                };
                json!({"kind":"ok","type":mt_num(&t),"lo":lo,"hi":hi,"resp_len":rl})
            }
            Ok(Err((t, e))) => {
                let mut v = err_json(&t, &e);
                v["resp_len"] = json!(-1);
                v
            }
            Err(pn) => {
                let mut v = panic_json(pn);
                v["resp_len"] = json!(-1);
                v
            }
        };
        let n = match res["resp_len"].as_i64() {
            Some(k) if k >= 0 => (k as usize).min(rbuf.len()),
            _ => 0,
        };
        if n >= 3 {
            // the length probe on every prefix of the response the processor wrote
            ev.insert("rprobe".into(), probe_prefixes(ctx, &rbuf[..n]));
        }
        ev.insert("res".into(), res);
        ev.insert("rbuf".into(), jb(&rbuf[..n]));
        ev.insert("rtail_diff".into(), tail_diff(&rbuf, n, poison));
        ev.insert("post".into(), self.eids(c));
    }

    /// For one (b1, b2): the set of distinct probe results over all 256 values of byte 0 and
    /// `tails` continuations (given explicitly in the command, so the event is replayable).
    fn op_batch_len(&mut self, cmd: &Value, ev: &mut Map<String, Value>) {
        let c = num(cmd, "ctx");
        let b1 = num(cmd, "b1") as u8;
        let b2 = num(cmd, "b2") as u8;
        let tails: Vec<Vec<u8>> = cmd["tails"]
            .as_array()
            .unwrap_or_else(|| bad("tails"))
            .iter()
            .map(bytes)
            .collect();
        let ctx = self.ctx(c);
        let mut seen: Vec<Value> = Vec::new();
        let mut calls = 0u64;
        for b0 in 0..=255u8 {
            for t in &tails {
                let mut p = vec![b0, b1, b2];
                p.extend_from_slice(t);
                let r = length_json(ctx, &p);
                calls += 1;
                if !seen.contains(&r) {
                    seen.push(r);
                }
            }
        }
        ev.insert("calls".into(), json!(calls));
        ev.insert("results".into(), Value::Array(seen));
    }
}

// ------------------------------------------------------------------------------------------
// header views and enum conversions (pure functions, no context)

fn field_map(pairs: &[(&str, u64)]) -> Value {
    let mut m = Map::new();
    for (k, v) in pairs {
        m.insert((*k).into(), json!(*v));
    }
    Value::Object(m)
}

/// A header view is a window on the first bytes of whatever backs it: with a backing buffer of exactly the view's
/// length the public constructor is used, with a longer one the view is laid over the whole buffer (the public
/// tuple field) - the getters must not look at the extra bytes and the setters must not touch them.
macro_rules! on_view {
    ($raw:expr, $n:expr, $exact:expr, $wide:expr, |$h:ident| $body:block) => {
        if $raw.len() == $n {
            #[allow(unused_mut)]
            let mut $h = $exact;
            $body
        } else {
            #[allow(unused_mut)]
            let mut $h = $wide;
            $body
        }
    };
}

fn op_header(op: &str, cmd: &Value, ev: &mut Map<String, Value>) {
    let view = st(cmd, "view").to_string();
    let r = catch_unwind(AssertUnwindSafe(|| -> Map<String, Value> {
        let mut out = Map::new();
        match op {
            "hdr_new" => {
                let a = &cmd["args"];
                let raw: Vec<u8> = match view.as_str() {
                    "transport" => MCTPTransportHeader::new(num(a, "version") as u8).0.to_vec(),
                    "smbus" => MCTPSMBusHeader::new().0.to_vec(),
                    "body" => MCTPMessageBodyHeader::new(false, mt_of(num(a, "msg_type")))
                        .0
                        .to_vec(),
                    "control" => MCTPControlMessageHeader::new(
                        num(a, "rq") != 0,
                        num(a, "d") != 0,
                        num(a, "instance_id") as u8,
                        CommandCode::from(num(a, "command_code") as u8),
                    )
                    .0
                    .to_vec(),
                    "routing" => SMBusRoutingInformationUpdateEntry::new(
                        match num(a, "entry_type") {
                            0 => RoutingInformationUpdateEntryType::SingleEndpointNotBridge,
                            1 => RoutingInformationUpdateEntryType::EIDRangeIncludeBridge,
                            2 => RoutingInformationUpdateEntryType::SingleEndpointBridge,
                            3 => RoutingInformationUpdateEntryType::EIDRangeNotIncludeBridge,
                            _ => bad("entry_type"),
                        },
                        num(a, "eid_range_size") as u8,
                        num(a, "first_eid") as u8,
                        num(a, "physical_address") as u8,
                    )
                    .0
                    .to_vec(),
                    "pci" => {
                        let v = bytes(&a["vendor_id"]);
                        PCIMessageFormat::new(u16::from_be_bytes([v[0], v[1]])).0.to_vec()
                    }
                    "iana" => IANAMessageFormat::new(u32::from_be_bytes(arr4(&a["vendor_id"])))
                        .0
                        .to_vec(),
                    _ => bad("view"),
                };
                out.insert("raw_out".into(), jb(&raw));
            }
            "hdr_from_buf" => {
                let raw = bytes(&cmd["raw"]);
                match view.as_str() {
                    "transport" => {
                        let r = MCTPTransportHeader::new_from_buf(
                            arr4(&cmd["raw"]),
                            num(cmd, "version") as u8,
                        );
                        out.insert("ok".into(), json!(if r.is_ok() { 1 } else { 0 }));
                        if let Ok(h) = r {
                            out.insert("raw_out".into(), jb(&h.0));
                        }
                    }
                    "body" => {
                        let r = MCTPMessageBodyHeader::new_from_buf([raw[0]]);
                        out.insert("ok".into(), json!(if r.is_ok() { 1 } else { 0 }));
                        if let Ok(h) = r {
                            out.insert("raw_out".into(), jb(&h.0));
                        }
                    }
                    _ => bad("hdr_from_buf view"),
                }
            }
            "hdr_get" | "hdr_set" => {
                let raw = bytes(&cmd["raw"]);
                let set = op == "hdr_set";
                let (fname, val) = if set {
                    (st(cmd, "field").to_string(), &cmd["value"])
                } else {
                    (String::new(), &Value::Null)
                };
                let v8 = || val.as_u64().unwrap_or_else(|| bad("value")) as u8;
                match view.as_str() {
                    "smbus" => {
                        on_view!(raw, 4, MCTPSMBusHeader::new_from_buf(arr4(&cmd["raw"])), MCTPSMBusHeader(raw.clone()), |h| {
                        if set {
                            match fname.as_str() {
                                "dest_read_write" => h.set_dest_read_write(v8()),
                                "dest_slave_addr" => h.set_dest_slave_addr(v8()),
                                "command_code" => h.set_command_code(v8()),
                                "byte_count" => h.set_byte_count(v8()),
                                "source_read_write" => h.set_source_read_write(v8()),
                                "source_slave_addr" => h.set_source_slave_addr(v8()),
                                _ => bad("field"),
                            }
                            out.insert("raw_after".into(), jb(&h.0));
                        }
                        out.insert(
                            "fields".into(),
                            field_map(&[
                                ("dest_read_write", h.dest_read_write() as u64),
                                ("dest_slave_addr", h.dest_slave_addr() as u64),
                                ("command_code", h.command_code() as u64),
                                ("byte_count", h.byte_count() as u64),
                                ("source_read_write", h.source_read_write() as u64),
                                ("source_slave_addr", h.source_slave_addr() as u64),
                            ]),
                        );
                        });
                    }
                    "transport" => {
                        on_view!(raw, 4, MCTPTransportHeader(arr4(&cmd["raw"])), MCTPTransportHeader(raw.clone()), |h| {
                        if set {
                            match fname.as_str() {
                                "hdr_version" => h.set_hdr_version(v8()),
                                "dest_endpoint_id" => h.set_dest_endpoint_id(v8()),
                                "source_endpoint_id" => h.set_source_endpoint_id(v8()),
                                "som" => h.set_som(v8()),
                                "eom" => h.set_eom(v8()),
                                "pkt_seq" => h.set_pkt_seq(v8()),
                                "to" => h.set_to(v8()),
                                "msg_tag" => h.set_msg_tag(v8()),
                                _ => bad("field"),
                            }
                            out.insert("raw_after".into(), jb(&h.0));
                        }
                        out.insert(
                            "fields".into(),
                            field_map(&[
                                ("hdr_version", h.hdr_version() as u64),
                                ("dest_endpoint_id", h.dest_endpoint_id() as u64),
                                ("source_endpoint_id", h.source_endpoint_id() as u64),
                                ("som", h.som() as u64),
                                ("eom", h.eom() as u64),
                                ("pkt_seq", h.pkt_seq() as u64),
                                ("to", h.to() as u64),
                                ("msg_tag", h.msg_tag() as u64),
                            ]),
                        );
                        });
                    }
                    "body" => {
                        on_view!(raw, 1, MCTPMessageBodyHeader([raw[0]]), MCTPMessageBodyHeader(raw.clone()), |h| {
                        if set {
                            match fname.as_str() {
                                "msg_type" => h.set_msg_type(v8()),
                                _ => bad("field"),
                            }
                            out.insert("raw_after".into(), jb(&h.0));
                        }
                        out.insert(
                            "fields".into(),
                            field_map(&[("msg_type", h.msg_type() as u64)]),
                        );
                        });
                    }
                    "control" => {
                        on_view!(raw, 2, MCTPControlMessageHeader::new_from_buf([raw[0], raw[1]]), MCTPControlMessageHeader(raw.clone()), |h| {
                        if set {
                            match fname.as_str() {
                                "rq" => h.set_rq(v8()),
                                "d" => h.set_d(v8()),
                                "instance_id" => h.set_instance_id(v8()),
                                "command_code" => h.set_command_code(v8()),
                                _ => bad("field"),
                            }
                            out.insert("raw_after".into(), jb(&h.0));
                        }
                        out.insert(
                            "fields".into(),
                            field_map(&[
                                ("rq", h.rq() as u64),
                                ("d", h.d() as u64),
                                ("instance_id", h.instance_id() as u64),
                                ("command_code", h.command_code() as u64),
                            ]),
                        );
                        });
                    }
                    "routing" => {
                        on_view!(raw, 4, SMBusRoutingInformationUpdateEntry::new_from_buf(arr4(&cmd["raw"])), SMBusRoutingInformationUpdateEntry(raw.clone()), |h| {
                        if set {
                            match fname.as_str() {
                                "entry_type" => h.set_entry_type(v8()),
                                "eid_range_size" => h.set_eid_range_size(v8()),
                                "first_eid" => h.set_first_eid(v8()),
                                "physical_address" => h.set_physical_address(v8()),
                                _ => bad("field"),
                            }
                            out.insert("raw_after".into(), jb(&h.0));
                        }
                        out.insert(
                            "fields".into(),
                            field_map(&[
                                ("entry_type", h.entry_type() as u64),
                                ("eid_range_size", h.eid_range_size() as u64),
                                ("first_eid", h.first_eid() as u64),
                                ("physical_address", h.physical_address() as u64),
                            ]),
                        );
                        });
                    }
                    // the two vendor-id views: values travel as big-endian byte arrays
                    "pci" => {
                        on_view!(raw, 2, PCIMessageFormat::new_from_buf([raw[0], raw[1]]), PCIMessageFormat(raw.clone()), |h| {
                        if set {
                            let v = bytes(val);
                            h.set_vendor_id(u16::from_be_bytes([v[0], v[1]]));
                            out.insert("raw_after".into(), jb(&h.0));
                        }
                        out.insert("wide".into(), jb(&h.vendor_id().to_be_bytes()));
                        });
                    }
                    "iana" => {
                        on_view!(raw, 4, IANAMessageFormat::new_from_buf(arr4(&cmd["raw"])), IANAMessageFormat(raw.clone()), |h| {
                        if set {
                            h.set_vendor_id(u32::from_be_bytes(arr4(val)));
                            out.insert("raw_after".into(), jb(&h.0));
                        }
                        out.insert("wide".into(), jb(&h.vendor_id().to_be_bytes()));
                        });
                    }
                    _ => bad("view"),
                }
            }
            _ => unreachable!(),
        }
        out
    }));
    match r {
        Ok(m) => {
            ev.insert("res".into(), json!({"kind":"ok"}));
            for (k, v) in m {
                ev.insert(k, v);
            }
        }
        Err(pn) => {
            ev.insert("res".into(), panic_json(pn));
        }
    }
}

fn op_conv(cmd: &Value, ev: &mut Map<String, Value>) {
    let b = num(cmd, "byte") as u8;
    let which = st(cmd, "enum").to_string();
    let r = catch_unwind(AssertUnwindSafe(|| -> String {
        match which.as_str() {
            "command" => format!("{:?}", CommandCode::from(b)),
            "msgtype" => format!("{:?}", MessageType::from(b)),
            "completion" => format!("{:?}", CompletionCode::from(b)),
            _ => bad("enum"),
        }
    }));
    match r {
        Ok(s) => {
            ev.insert("res".into(), json!({"kind":"ok"}));
            ev.insert("variant".into(), json!(s));
            // the enumeration's own numeric value for the variant returned
            let val: u64 = match which.as_str() {
                "command" => CommandCode::from(b) as u64,
                "msgtype" => MessageType::from(b) as u64,
                _ => CompletionCode::from(b) as u64,
            };
            ev.insert("variant_value".into(), json!(val));
        }
        Err(pn) => {
            ev.insert("res".into(), panic_json(pn));
        }
    }
}
