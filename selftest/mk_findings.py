#!/usr/bin/env python3
"""Writes findings/<id>.ndjson: for every entry of known_findings.json the smallest scenario (inputs only)
that shows the defect on the real code.  Re-run by hand when a scenario needs changing; the files are committed."""
import json, os
ROOT = os.path.dirname(os.path.dirname(os.path.abspath(__file__)))

def crc(bs):
    r = 0
    for b in bs:
        r ^= b
        for _ in range(8):
            r = ((r << 1) ^ 7) & 0xFF if r & 0x80 else (r << 1) & 0xFF
    return r

def pkt(body, dst=0x23, src=0x34):
    """SMBus + transport header around body (message type byte onwards), PEC appended."""
    p = [(dst & 0x7F) << 1, 0x0F, 0, ((src & 0x7F) << 1) | 1, 0x01, dst, src, 0xC8] + body
    p[2] = (len(p) + 1 - 4) & 0xFF
    return p + [crc(p)]

NEW = {"op": "new", "ctx": 0, "addr": 0x23, "msg_types": [0x7E, 0x05],
       "vendor_ids": [{"format": 0, "data": [0, 0, 0x12, 0x34], "num": [0, 0xAB]},
                      {"format": 1, "data": [0x11, 0x22, 0x33, 0x44], "num": [0x55, 0x66]}]}
NEW1 = {"op": "new", "ctx": 1, "addr": 0x34, "msg_types": [], "vendor_ids": [{"format": 0, "data": [0, 0, 0, 1], "num": [0, 0]}]}

def dec(p, c=0): return {"op": "decode", "ctx": c, "p": p}
def proc(p, c=0): return {"op": "process", "ctx": c, "p": p, "rbuf_len": 64, "poison": 0xA5}
def glen(p, c=0): return {"op": "get_length", "ctx": c, "p": p}
def encreq(name, args, c=1): return {"op": "enc_req", "ctx": c, "name": name, "args": args, "buf_len": 300, "poison": 0x5A}
def encresp(name, args, c=1): return {"op": "enc_resp", "ctx": c, "name": name, "args": args, "buf_len": 300, "poison": 0x5A}
def vendor(fmt, data, msg, c=1): return {"op": "enc_vendor", "ctx": c, "args": {"dst": 0x23, "format": fmt, "data": data, "num": 0, "msg": msg}, "buf_len": 300, "poison": 0x5A}

def nine(t):
    for b5 in range(256):
        for b6 in range(256):
            q = [0x46, 0x0F, 5, 0x69, 0x01, b5, b6, 0xC8]
            if crc(q) == t:
                return q + [t]

S = {}
iana = pkt([0x7F, 0, 0, 1, 0x9D, 9, 8, 7])
S["IANA_SLICE"] = [NEW, NEW1, vendor(1, [0, 0, 1, 0x9D], [9, 8, 7]), dec(iana), proc(iana), dec(pkt([0x7F])), dec(pkt([0x7F, 1, 2, 3, 4]))]
S["PROCESS_SPDM"] = [NEW, proc(pkt([0x05, 0x10, 0x84, 0, 0])), proc(pkt([0x06, 1, 2]))]
S["SHORT_PROBE"] = [NEW, glen([]), glen([0x46]), glen([0x46, 0x0F])]
S["SHORT_INPUT"] = [NEW] + [dec([0] * n) for n in (0, 1, 7)] + [dec([0x46, 0x0F, 4, 0x69, 0x01, 0x23, 0x34, 0xC8]),
                    dec(nine(0x7E)), proc(nine(0x05)), dec(pkt([0x00])[:-1] + [0]), dec(pkt([0x00, 0x80])), proc(pkt([0x00, 0x00, 0x02])),
                    proc(pkt([0x00, 0x80, 0x02])[:11])]
S["CC_UNREACHABLE"] = [NEW, dec(pkt([0x00, 0x00, 0x02, 0x06, 1, 2, 3])), proc(pkt([0x00, 0x00, 0x03, 0xFF]))]
S["LEN_TABLE_PANIC"] = [NEW, NEW1, encreq("resolve_uuid", {"dst": 0x23, "uuid": list(range(16)), "handle": 3}),
                        dec(pkt([0x00, 0x80, 0x10] + list(range(16)) + [3], dst=0x23, src=0x34)),
                        encreq("get_network_id", {"dst": 0x23}), dec(pkt([0x00, 0x80, 0x0E])), dec(pkt([0x00, 0x80, 0x20, 1])),
                        dec(pkt([0x00, 0x00, 0x07, 0x00, 1])), dec(pkt([0x00, 0x00, 0x0A, 0x00]))]
S["SETEID_OP"] = [NEW, proc(pkt([0x00, 0x80, 0x01, 0x02, 0x09])), proc(pkt([0x00, 0x80, 0x01, 0x04, 0x09])), proc(pkt([0x00, 0x80, 0x01, 0xFF, 0x09]))]
S["SELECTOR_RANGE"] = [NEW, proc(pkt([0x00, 0x80, 0x06, 0x02])), proc(pkt([0x00, 0x80, 0x06, 0xFF])), proc(pkt([0x00, 0x80, 0x06, 0x01]))]
S["BYTECOUNT_WRAP"] = [NEW, NEW1] + [vendor(0, [0, 0, 0x12, 0x34], [0x11] * n) for n in (243, 244, 245, 247, 248, 250)] + \
                      [proc(pkt([0x00, 0x80, 0x02] + [7] * 244)), proc(pkt([0x00, 0x80, 0x05] + [7] * 247))]
S["UNSUPPORTED_CMD"] = [NEW, proc(pkt([0x00, 0x80, 0x07, 0x09])), proc(pkt([0x00, 0x80, 0x00])), proc(pkt([0x00, 0x80, 0x08, 0, 4, 0x10])),
                        proc(pkt([0x00, 0x80, 0x0B])), proc(pkt([0x00, 0x80, 0xC8, 1, 2]))]
S["IID_ZERO"] = [NEW, proc(pkt([0x00, 0x85, 0x02])), proc(pkt([0x00, 0x9F, 0x03])), proc(pkt([0x00, 0x81, 0x01, 0x00, 0x56]))]
S["GETEID_RESP_LEN"] = [NEW, NEW1, encresp("get_endpoint_id", {"dst": 0x23, "cc": 0, "endpoint_type": 0, "id_type": 0, "fairness": 1}),
                        dec(pkt([0x00, 0x00, 0x02, 0x00, 0x00, 0x00, 0x01], dst=0x23, src=0x34))]
S["QUERYHOP_CODE"] = [NEW, NEW1, encreq("query_hop", {"dst": 0x23, "eid": 9, "msg_type": 0x7E})]

os.makedirs(os.path.join(ROOT, "findings"), exist_ok=True)
for k, cmds in S.items():
    with open(os.path.join(ROOT, "findings", k + ".ndjson"), "w") as f:
        f.write("# scenario demonstrating finding %s (see known_findings.json); run: ./check --replay findings/%s.ndjson\n" % (k, k))
        for c in cmds:
            f.write(json.dumps(c) + "\n")
print("wrote", len(S), "scenarios")
