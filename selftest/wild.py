"""./check selftest wild [names]: totality of the harness and of the monitor.

Seventeen deliberately gross changes (every encoder returns Err / Ok(1) / Ok(3) / Ok(11) / Ok(capacity) /
Ok(capacity + 5) without writing; the decoder always refuses or panics; the probe returns 0 / 2 / 100000 / Err; the
processor reports a response of 0 / 5 / capacity / capacity + 7 bytes without writing one, or panics) are applied in
a scratch worktree (never /repo), a private copy of the harness is built against each, every driver family and every
finding scenario is run, and every trace is validated.

Required for each change: the harness never dies (a panic of the *harness* would turn a detectable violation into a
tool error), the monitor never hits a TLC evaluation error, and at least one property is flagged."""
import concurrent.futures as cf
import os
import re
import shutil
import subprocess
import tempfile

GEN = ("generate_control_packet_bytes", "generate_pci_msg_packet_bytes", "generate_spdm_msg_packet_bytes",
       "generate_iana_msg_packet_bytes")
TRAITS, SMBUS = "src/mctp_traits.rs", "src/smbus.rs"
DEC = "let r = self.decode_packet(packet)?; "
WILD = {
    "ctl_err": [(TRAITS, GEN[0], "return Err(());")],
    "all_ok1": [(TRAITS, f, "return Ok(1);") for f in GEN],
    "all_ok3": [(TRAITS, f, "return Ok(3);") for f in GEN],
    "all_ok11": [(TRAITS, f, "return Ok(11);") for f in GEN],
    "all_full": [(TRAITS, f, "return Ok(buf.len());") for f in GEN],
    "all_big": [(TRAITS, f, "return Ok(buf.len() + 5);") for f in GEN],
    "dec_err": [(SMBUS, "decode_packet", "return Err((MessageType::Invalid, DecodeError::Unknown));")],
    "dec_panic": [(SMBUS, "decode_packet", 'panic!("x");')],
    "len_0": [(SMBUS, "get_length", "return Ok(0);")],
    "len_2": [(SMBUS, "get_length", "return Ok(2);")],
    "len_huge": [(SMBUS, "get_length", "return Ok(100000);")],
    "len_err": [(SMBUS, "get_length", "return Err((MessageType::Invalid, DecodeError::Unknown));")],
    "proc_some0": [(SMBUS, "process_packet", DEC + "return Ok((r, Some(0)));")],
    "proc_some5": [(SMBUS, "process_packet", DEC + "return Ok((r, Some(5)));")],
    "proc_full": [(SMBUS, "process_packet", DEC + "return Ok((r, Some(response_buf.len())));")],
    "proc_over": [(SMBUS, "process_packet", DEC + "return Ok((r, Some(response_buf.len() + 7)));")],
    "proc_panic": [(SMBUS, "process_packet", 'panic!("y");')],
}


def inject(path, fn, stmt):
    s = open(path).read()
    m = re.search(r"fn %s\b[^{]*\{\n" % fn, s, re.S)
    assert m, fn
    s = s[:m.end()] + "        #[allow(unreachable_code)] { " + stmt + " }\n" + s[m.end():]
    open(path, "w").write(s)


def main(chk, only):
    tmp = tempfile.mkdtemp(prefix="vt-wild-")
    wt, h2 = os.path.join(tmp, "wt"), os.path.join(tmp, "harness")
    w = chk.mkwork("selftest-wild")
    notok = []
    try:
        chk.write_trace_cfg(w, chk.open_ids())
        chk.gen_scenarios(w, "GenAlphabet", "quick", 1)          # writes alphabet.json (needed by `tour`)
        shutil.copytree(os.path.join(chk.ROOT, "harness"), h2, ignore=shutil.ignore_patterns("target"))
        toml = open(os.path.join(h2, "Cargo.toml")).read().replace('path = "/repo"', 'path = "%s"' % wt)
        open(os.path.join(h2, "Cargo.toml"), "w").write(toml)
        hb = os.path.join(h2, "target", "release", "mctp-verif-harness")
        fams = sorted({(f if isinstance(f, str) else f[0]) for p in chk.PLAN.values() for f in p.get("families", [])})
        scens = sorted(os.listdir(os.path.join(chk.ROOT, "findings")))
        env = dict(os.environ, VERIF_ALPHABET=os.path.join(w, "alphabet.json"))
        names = [n for n in WILD if not only or n in only]
        for name in names:
            subprocess.run(["git", "-C", "/repo", "worktree", "remove", "--force", wt], stdout=subprocess.DEVNULL, stderr=subprocess.DEVNULL)
            subprocess.run(["git", "-C", "/repo", "worktree", "add", "--detach", wt, "HEAD"], stdout=subprocess.DEVNULL, stderr=subprocess.DEVNULL, check=True)
            for f, fn, st in WILD[name]:
                inject(os.path.join(wt, f), fn, st)
            r = subprocess.run(["cargo", "build", "--release", "--offline"], cwd=h2, stdout=subprocess.PIPE, stderr=subprocess.STDOUT, text=True)
            if r.returncode != 0:
                print("%s: does not build: %s" % (name, r.stdout[-400:]))
                notok.append(name)
                continue
            died, traces = [], []
            for fam in fams:
                tr = os.path.join(w, "%s-%s.ndjson" % (name, fam))
                r = subprocess.run([hb, "drive", fam, "quick", "1", tr], env=env, stdout=subprocess.PIPE, stderr=subprocess.STDOUT, text=True, timeout=1800)
                if r.returncode != 0:
                    died.append((fam, r.returncode, r.stdout[-200:]))
                else:
                    traces.append((fam, tr))
            for sc in scens:
                tr = os.path.join(w, "%s-scn-%s" % (name, sc))
                r = subprocess.run([hb, "run", os.path.join(chk.ROOT, "findings", sc), tr], stdout=subprocess.PIPE, stderr=subprocess.STDOUT, text=True, timeout=1800)
                if r.returncode != 0:
                    died.append((sc, r.returncode, r.stdout[-200:]))
                else:
                    traces.append((sc, tr))
            parts = []
            for tag, tr in traces:
                parts.extend(chk.split_trace(tr, tag))

            def val(t):
                try:
                    s = chk.validate(w, t[1])
                    return t[0], sorted(p for p in chk.PROPS if s["first"][p])
                except Exception as e:           # ToolError: TLC could not evaluate the monitor on this trace
                    return t[0], "TOOL ERROR " + str(e)[-300:]
            with cf.ThreadPoolExecutor(max_workers=10) as ex:
                res = list(ex.map(val, parts))
            for _, tr, _ in parts:
                if os.path.exists(tr):
                    os.remove(tr)
            terr = [x for x in res if isinstance(x[1], str)]
            flags = sorted({p for x in res if not isinstance(x[1], str) for p in x[1]})
            if died or terr or not flags:
                notok.append(name)
            print("%-11s harness %s; monitor evaluation errors: %s; flagged: %s" % (
                name, "survived" if not died else "DIED %s" % died, terr or "none", ",".join(flags) or "NOTHING"), flush=True)
    finally:
        subprocess.run(["git", "-C", "/repo", "worktree", "remove", "--force", wt], stdout=subprocess.DEVNULL, stderr=subprocess.DEVNULL)
        subprocess.run(["git", "-C", "/repo", "worktree", "prune"], stdout=subprocess.DEVNULL, stderr=subprocess.DEVNULL)
        shutil.rmtree(tmp, ignore_errors=True)
        shutil.rmtree(w, ignore_errors=True)
    print("wild: %d of %d not as required: %s" % (len(notok), len(names), notok))
    return 0 if not notok else 1
