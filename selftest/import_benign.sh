#!/bin/sh
# usage: import_benign.sh <scratch-worktree> <A|B|C> <id> <property>
# Confirms in the scratch worktree that the change applies, compiles without warnings and passes the existing
# suite, then files it as a *control* of the sensitivity catalogue (must not be flagged by any check).
set -u
WT=$1; V=$2; ID=$3; PROP=$4
cd "$WT" || exit 2
git checkout -q -- .
git apply --check "ben$V.diff" || { echo "REJECT $ID: patch does not apply"; exit 1; }
git apply "ben$V.diff"
T1=$(cargo test --offline 2>&1 | grep "^test result" | tr '\n' ' ')
W=$(cargo build --offline 2>&1 | grep -c "^warning")
git checkout -q -- .
echo "$T1" | grep -q "ok. 59 passed" || { echo "REJECT $ID: existing suite: $T1"; exit 1; }
echo "$T1" | grep -q "ok. 4 passed" || { echo "REJECT $ID: doctests: $T1"; exit 1; }
cp "ben$V.diff" /verif/selftest/mutants/$ID.patch
python3 - "$ID" "$PROP" "$WT/ben$V.txt" "$W" <<'PY'
import json,sys
i,prop,txt,w=sys.argv[1:]
p='/verif/selftest/mutants/catalogue.json'
c=[m for m in json.load(open(p)) if m["id"]!=i]
c.append({"id":i,"property":prop,"control":True,"source":"independent sub-agent asked for behaviour-preserving / within-latitude changes",
          "what":"CONTROL (benign): "+open(txt).read().strip().replace("\n"," ")[:900],"new_warnings":int(w)})
json.dump(c,open(p,'w'),indent=1)
PY
echo "KEEP $ID"
