#!/bin/sh
# usage: confirm_mutant.sh <scratch-worktree> <A|B> <seeded-id> <property>
# Confirms, in the scratch worktree (never in /repo), that the candidate change compiles, passes the
# existing suite, makes its demonstration fail and that the demonstration passes without it; then
# files it under /verif/seeded/<id>/.
set -u
WT=$1; V=$2; ID=$3; PROP=$4
cd "$WT" || exit 2
git checkout -q -- . ; rm -rf tests
git apply --check "mut$V.diff" || { echo "REJECT $ID: patch does not apply"; exit 1; }
git apply "mut$V.diff"
T1=$(cargo test --offline --lib 2>&1 | grep "^test result" | head -1)
echo "$T1" | grep -q "ok. 59 passed" || { echo "REJECT $ID: existing suite: $T1"; git checkout -q -- .; exit 1; }
W=$(cargo build --offline 2>&1 | grep -c "^warning")
mkdir -p tests; cp "demo$V.rs" tests/demo.rs
D1=$(cargo test --offline --test demo 2>&1 | grep "^test result" | head -1)
git checkout -q -- .
D0=$(cargo test --offline --test demo 2>&1 | grep "^test result" | head -1)
rm -rf tests
echo "$D1" | grep -q "FAILED" || { echo "REJECT $ID: demo does not fail with the change: $D1"; exit 1; }
echo "$D0" | grep -q "ok\." || { echo "REJECT $ID: demo does not pass without the change: $D0"; exit 1; }
mkdir -p /verif/seeded/$ID
cp "mut$V.diff" /verif/seeded/$ID/patch.diff
cp "demo$V.rs" /verif/seeded/$ID/demo.rs
python3 - "$ID" "$PROP" "$WT/meta$V.txt" "$T1" "$D1" "$D0" "$W" <<'PY'
import json,sys
i,prop,meta,t1,d1,d0,w=sys.argv[1:]
json.dump({"id":i,"property":prop,"source":"independent sub-agent given only the property text and a scratch worktree",
 "needs_to_manifest":open(meta).read().strip(),
 "confirmed":{"existing_suite_with_change":t1,"demo_with_change":d1,"demo_without_change":d0,"new_warnings":int(w),
   "how":"selftest/confirm_mutant.sh in a scratch worktree under /tmp (git apply; cargo test --offline --lib; cargo test --offline --test demo; git checkout; cargo test --offline --test demo)"},
 "detected_by":None},open('/verif/seeded/%s/meta.json'%i,'w'),indent=1)
PY
echo "KEEP $ID"
