"""Model-level and binding self-tests (used by ./check selftest deviations|corrupt)."""
import json
import os
import re
import shutil

# deviation -> [(model, config template, invariants/properties of which at least one must be violated)]
DEVS = {
    "IANA_SLICE": [("MC_Codec", ["InvC01"]), ("MC_Decode", ["InvC09", "InvC10"])],
    "GETEID_RESP_LEN": [("MC_Codec", ["InvC01"])],
    "LEN_TABLE_PANIC": [("MC_Codec", ["InvC01"]), ("MC_Decode", ["InvC09", "InvC10"])],
    "QUERYHOP_CODE": [("MC_Codec", ["InvC06"])],
    "BYTECOUNT_WRAP": [("MC_Codec", ["InvC04"])],
    "SHORT_INPUT": [("MC_Decode", ["InvC10", "InvC09"])],
    "CC_UNREACHABLE": [("MC_Decode", ["InvC10", "InvC09"])],
    "PROCESS_SPDM": [("MC_Endpoint", ["InvC11"])],
    "IID_ZERO": [("MC_Endpoint", ["InvC12"]), ("MC_Link", ["NeverGivesUpWhenRetriesSuffice", "NoMisMatch", "SeenIsPrefix", "Terminates"])],
    "SETEID_OP": [("MC_Endpoint", ["InvC10"])],
    "SELECTOR_RANGE": [("MC_Endpoint", ["InvC10"])],
    "UNSUPPORTED_CMD": [("MC_Endpoint", ["InvC10"])],
}


def deviations(chk):
    w = chk.mkwork("selftest-dev")
    bad = 0
    try:
        for dev, targets in sorted(DEVS.items()):
            for model, invs in targets:
                m = chk.MODELS[model]
                src = open(os.path.join(w, m["cfg"])).read()
                cfg = "%s_dev_%s.cfg" % (model, dev)
                open(os.path.join(w, cfg), "w").write(src.replace("CONSTANT O = {}", 'CONSTANT O = {"%s"}' % dev))
                md = os.path.join(w, "md-%s-%s" % (model, dev))
                rc, out = chk.java(["-workers", "8", "-metadir", md, "-cleanup", "-noGenerateSpecTE", "-config", cfg, m["tla"]],
                                   w, timeout=900, xmx="6g", serial=False)
                shutil.rmtree(md, ignore_errors=True)
                viol = re.findall(r"Invariant (\w+) is violated", out) + re.findall(r"Temporal property (\w+) was violated", out)
                ok = any(v in invs for v in viol)
                print("%-16s %-12s violated=%s %s" % (dev, model, viol, "ok" if ok else "NOT REPRODUCED"), flush=True)
                if not ok:
                    bad += 1
        print("deviations: %d not reproduced" % bad)
        return 0 if bad == 0 else 1
    finally:
        shutil.rmtree(w, ignore_errors=True)


def _mutations():
    """(name, predicate selecting the event to corrupt, mutation, properties of which one must fail)"""
    def first(op, cond=lambda e: True):
        return lambda e: e.get("op") == op and cond(e)

    def m_lo(e):
        e["res"]["lo"] += 1

    def m_hi(e):
        e["res"]["hi"] -= 1

    def m_rbuf(e):
        e["rbuf"][13] ^= 0x20

    def m_post(e):
        e["post"]["eid_req"] ^= 1

    def m_panic(e):
        e["res"] = {"kind": "panic", "msg": "x", "resp_len": -1}

    def m_encbyte(i):
        def f(e):
            e["buf"][i] ^= 0x04
        return f

    def m_len(e):
        e["res"]["len"] += 1

    def m_probe(e):
        e["probe"][0]["len"] += 1

    def m_tail(e):
        e["tail_diff"] = [[e["res"]["len"] + 2, 0]]

    def m_rtail(e):
        e["rtail_diff"] = [[40, 1]]

    def m_type(e):
        e["res"]["type"] = 6 if e["res"]["type"] == 5 else 5

    def m_errkind(e):
        e["res"] = {"kind": "err", "type": 0, "err": "InvalidPEC", "cc": 0}

    def m_variant(e):
        e["variant"] = "Unknown"

    def m_field(e):
        k = sorted(e["fields"])[0]
        e["fields"][k] ^= 1

    okdec = lambda e: e["res"]["kind"] == "ok"
    okproc = lambda e: e["res"]["kind"] == "ok" and e["res"]["resp_len"] >= 16
    okenc = lambda e: e["res"]["kind"] == "ok"
    return [
        ("decode payload offset +1", first("decode", okdec), m_lo, ["C01", "C09"]),
        ("decode payload end -1", first("decode", okdec), m_hi, ["C01", "C09"]),
        ("decode accepted -> reported InvalidPEC", first("decode", okdec), m_errkind, ["C09", "C01"]),
        ("decode type changed", first("decode", okdec), m_type, ["C09", "C01"]),
        ("process response byte flipped", first("process", okproc), m_rbuf, ["C03", "C12", "C13", "C14", "C15"]),
        ("process stray write beyond the response", first("process", okproc), m_rtail, ["C11"]),
        ("process result turned into a panic", first("process", okproc), m_panic, ["C10"]),
        ("post EID changed on a decode", first("decode"), m_post, ["C13"]),
        ("encoder output byte 0 changed", first("enc_req", okenc), m_encbyte(0), ["C04", "C03"]),
        ("encoder output byte 2 (count) changed", first("enc_req", okenc), m_encbyte(2), ["C04", "C03"]),
        ("encoder output byte 5 (dst EID) changed", first("enc_req", okenc), m_encbyte(5), ["C05", "C03"]),
        ("encoder output byte 10 (command) changed", first("enc_req", okenc), m_encbyte(10), ["C06", "C03"]),
        ("response encoder output byte 12 changed", first("enc_resp", okenc), m_encbyte(12), ["C07", "C03"]),
        ("encoder reported length +1", first("enc_req", okenc), m_len, ["C03", "C04", "C16"]),
        ("encoder wrote beyond its length", first("enc_req", okenc), m_tail, ["C16"]),
        ("length probe on a prefix off by one", first("enc_req", okenc), m_probe, ["C04"]),
        ("get_length result changed", first("get_length", lambda e: e["res"]["kind"] == "ok"), m_len, ["C17"]),
    ]


def corrupt(chk):
    """Binding test: a valid recorded trace with one observation field corrupted must be rejected, under
    the property that field belongs to; dropping a state-changing event must surface as a state mismatch."""
    w = chk.mkwork("selftest-corrupt")
    bad = 0
    try:
        chk.build()
        chk.write_trace_cfg(w, chk.open_ids())
        base = chk.drive(w, "seed", "quick", 7)
        lines = [json.loads(l) for l in open(base)]
        s = chk.validate(w, base)
        if any(s["first"][p] for p in chk.PROPS):
            print("corrupt: the uncorrupted trace is already rejected?!")
            return 2
        tests = _mutations()
        for k, (name, sel, mut, props) in enumerate(tests):
            evs = json.loads(json.dumps(lines))
            idx = next((i for i, e in enumerate(evs) if sel(e)), None)
            if idx is None:
                print("%-50s no matching event in the base trace (selftest needs updating)" % name)
                bad += 1
                continue
            mut(evs[idx])
            path = os.path.join(w, "corrupt%d.ndjson" % k)
            with open(path, "w") as f:
                for e in evs:
                    f.write(json.dumps(e) + "\n")
            r = chk.validate(w, path)
            failing = [p for p in chk.PROPS if r["first"][p]]
            ok = any(p in failing for p in props) and all(r["first"][p] in (0, idx + 1) or p in props for p in failing)
            print("%-50s event %d -> fails %s %s" % (name, idx + 1, failing, "ok" if ok else "NOT REJECTED AS EXPECTED"), flush=True)
            if not ok:
                bad += 1
        # dropping the first accepted assignment: the model's EID no longer matches what the code reports
        evs = json.loads(json.dumps(lines))
        idx = next(i for i, e in enumerate(evs) if e.get("op") == "process" and e["post"] != e["pre"])
        del evs[idx]
        for j, e in enumerate(evs, 1):
            e["i"] = j
        path = os.path.join(w, "dropped.ndjson")
        with open(path, "w") as f:
            for e in evs:
                f.write(json.dumps(e) + "\n")
        r = chk.validate(w, path)
        ok = bool(r["first"]["C13"])
        print("%-50s -> C13 first failing event %d %s" % ("state-changing event removed from the trace", r["first"]["C13"], "ok" if ok else "NOT REJECTED"))
        if not ok:
            bad += 1
        print("corrupt: %d of %d corruptions not rejected as expected" % (bad, len(tests) + 1))
        return 0 if bad == 0 else 1
    finally:
        shutil.rmtree(w, ignore_errors=True)
