"""Model-level and binding self-tests (used by ./check selftest deviations|corrupt)."""
import json
import os
import re
import shutil

# deviation -> [(model, config template, invariants/properties of which at least one must be violated)]
DEVS = {
    "IANA_SLICE": [("MC_Codec", ["InvC01"]), ("MC_Decode", ["InvC09", "InvC10"])],
    "GETEID_RESP_LEN": [("MC_Codec", ["InvC01"])],
    "LEN_TABLE_PANIC": [("MC_Codec", ["InvC01"]), ("MC_Decode", ["InvC09", "InvC10"])],
    "QUERYHOP_CODE": [("MC_Codec", ["InvC06"])],
    "BYTECOUNT_WRAP": [("MC_Codec", ["InvC04"])],
    "SHORT_INPUT": [("MC_Decode", ["InvC10", "InvC09"])],
    "CC_UNREACHABLE": [("MC_Decode", ["InvC10", "InvC09"])],
    "PROCESS_SPDM": [("MC_Endpoint", ["InvC11"])],
    "IID_ZERO": [("MC_Endpoint", ["InvC12"]), ("MC_Link", ["NeverGivesUpWhenRetriesSuffice", "NoMisMatch", "SeenIsPrefix", "Terminates"])],
    "SETEID_OP": [("MC_Endpoint", ["InvC10"])],
    "SELECTOR_RANGE": [("MC_Endpoint", ["InvC10"])],
    "UNSUPPORTED_CMD": [("MC_Endpoint", ["InvC10"])],
}


def deviations(chk):
    w = chk.mkwork("selftest-dev")
    bad = 0
    try:
        for dev, targets in sorted(DEVS.items()):
            for model, invs in targets:
                m = chk.MODELS[model]
                src = open(os.path.join(w, m["cfg"])).read()
                cfg = "%s_dev_%s.cfg" % (model, dev)
                open(os.path.join(w, cfg), "w").write(src.replace("CONSTANT O = {}", 'CONSTANT O = {"%s"}' % dev))
                md = os.path.join(w, "md-%s-%s" % (model, dev))
                rc, out = chk.java(["-workers", "8", "-metadir", md, "-cleanup", "-noGenerateSpecTE", "-config", cfg, m["tla"]],
                                   w, timeout=900, xmx="6g", serial=False)
                shutil.rmtree(md, ignore_errors=True)
                viol = re.findall(r"Invariant (\w+) is violated", out) + re.findall(r"Temporal property (\w+) was violated", out)
                ok = any(v in invs for v in viol)
                print("%-16s %-12s violated=%s %s" % (dev, model, viol, "ok" if ok else "NOT REPRODUCED"), flush=True)
                if not ok:
                    bad += 1
        # design-level observations: configurations that are EXPECTED to violate an invariant of the model although
        # the library satisfies every listed property (documented in DESIGN.md 14.8)
        for tla, cfg, inv, what in [("MC_Link.tla", "MC_Link_reassign.cfg", "EidAgreement",
                                     "a late duplicate of an earlier Set Endpoint ID undoes a later Force (no replay protection)"),
                                    ("MC_Bus2.tla", "MC_Bus2_nodst.cfg", "NoCrossAct",
                                     "hypothetical design whose PEC leaves out the destination-address byte: a re-routed request is acted upon by the wrong endpoint")]:
            md = os.path.join(w, "md-obs")
            rc, out = chk.java(["-workers", "4", "-metadir", md, "-cleanup", "-noGenerateSpecTE", "-config", cfg, tla],
                               w, timeout=900, xmx="4g", serial=False)
            shutil.rmtree(md, ignore_errors=True)
            viol = re.findall(r"Invariant (\w+) is violated", out)
            ok = inv in viol
            print("observation  %-28s violated=%s %s  (%s)" % (cfg, viol, "as documented" if ok else "NOT AS DOCUMENTED", what), flush=True)
            if not ok:
                bad += 1
        print("deviations: %d not reproduced" % bad)
        return 0 if bad == 0 else 1
    finally:
        shutil.rmtree(w, ignore_errors=True)


def _mutations():
    """(name, predicate selecting the event to corrupt, mutation, properties of which one must fail)"""
    def first(op, cond=lambda e: True):
        return lambda e: e.get("op") == op and cond(e)

    def m_lo(e):
        e["res"]["lo"] += 1

    def m_hi(e):
        e["res"]["hi"] -= 1

    def m_rbuf(e):
        e["rbuf"][13] ^= 0x20

    def m_post(e):
        e["post"]["eid_req"] ^= 1

    def m_panic(e):
        e["res"] = {"kind": "panic", "msg": "x", "resp_len": -1}

    def m_encbyte(i):
        def f(e):
            e["buf"][i] ^= 0x04
        return f

    def m_len(e):
        e["res"]["len"] += 1

    def m_probe(e):
        e["probe"][0]["len"] += 1

    def m_tail(e):
        e["tail_diff"] = [[e["res"]["len"] + 2, 0]]

    def m_rtail(e):
        e["rtail_diff"] = [[40, 1]]

    def m_type(e):
        e["res"]["type"] = 6 if e["res"]["type"] == 5 else 5

    def m_errkind(e):
        e["res"] = {"kind": "err", "type": 0, "err": "InvalidPEC", "cc": 0}

    def m_variant(e):
        e["variant"] = "Unknown"

    def m_field(e):
        k = sorted(e["fields"])[0]
        e["fields"][k] ^= 1

    okdec = lambda e: e["res"]["kind"] == "ok"
    okproc = lambda e: e["res"]["kind"] == "ok" and e["res"]["resp_len"] >= 16
    okenc = lambda e: e["res"]["kind"] == "ok"
    return [
        ("decode payload offset +1", first("decode", okdec), m_lo, ["C01", "C09"]),
        ("decode payload end -1", first("decode", okdec), m_hi, ["C01", "C09"]),
        ("decode accepted -> reported InvalidPEC", first("decode", okdec), m_errkind, ["C09", "C01"]),
        ("decode type changed", first("decode", okdec), m_type, ["C09", "C01"]),
        ("process response byte flipped", first("process", okproc), m_rbuf, ["C03", "C12", "C13", "C14", "C15"]),
        ("process stray write beyond the response", first("process", okproc), m_rtail, ["C11"]),
        ("process result turned into a panic", first("process", okproc), m_panic, ["C10"]),
        ("post EID changed on a decode", first("decode"), m_post, ["C13"]),
        ("encoder output byte 0 changed", first("enc_req", okenc), m_encbyte(0), ["C04", "C03"]),
        ("encoder output byte 2 (count) changed", first("enc_req", okenc), m_encbyte(2), ["C04", "C03"]),
        ("encoder output byte 5 (dst EID) changed", first("enc_req", okenc), m_encbyte(5), ["C05", "C03"]),
        ("encoder output byte 10 (command) changed", first("enc_req", okenc), m_encbyte(10), ["C06", "C03"]),
        ("response encoder output byte 12 changed", first("enc_resp", okenc), m_encbyte(12), ["C07", "C03"]),
        ("encoder reported length +1", first("enc_req", okenc), m_len, ["C03", "C04", "C16"]),
        ("encoder wrote beyond its length", first("enc_req", okenc), m_tail, ["C16"]),
        ("length probe on a prefix off by one", first("enc_req", okenc), m_probe, ["C04"]),
        ("get_length result changed", first("get_length", lambda e: e["res"]["kind"] == "ok"), m_len, ["C17"]),
    ]


def corrupt(chk):
    """Binding test: a valid recorded trace with one observation field corrupted must be rejected, under
    the property that field belongs to; dropping a state-changing event must surface as a state mismatch."""
    w = chk.mkwork("selftest-corrupt")
    bad = 0
    try:
        chk.build()
        chk.write_trace_cfg(w, chk.open_ids())
        base = chk.drive(w, "seed", "quick", 7)
        lines = [json.loads(l) for l in open(base)]
        s = chk.validate(w, base)
        if any(s["first"][p] for p in chk.PROPS):
            print("corrupt: the uncorrupted trace is already rejected?!")
            return 2
        tests = _mutations()
        for k, (name, sel, mut, props) in enumerate(tests):
            evs = json.loads(json.dumps(lines))
            idx = next((i for i, e in enumerate(evs) if sel(e)), None)
            if idx is None:
                print("%-50s no matching event in the base trace (selftest needs updating)" % name)
                bad += 1
                continue
            mut(evs[idx])
            path = os.path.join(w, "corrupt%d.ndjson" % k)
            with open(path, "w") as f:
                for e in evs:
                    f.write(json.dumps(e) + "\n")
            r = chk.validate(w, path)
            failing = [p for p in chk.PROPS if r["first"][p]]
            ok = any(p in failing for p in props) and all(r["first"][p] in (0, idx + 1) or p in props for p in failing)
            print("%-50s event %d -> fails %s %s" % (name, idx + 1, failing, "ok" if ok else "NOT REJECTED AS EXPECTED"), flush=True)
            if not ok:
                bad += 1
        # dropping the first accepted assignment: the model's EID no longer matches what the code reports
        evs = json.loads(json.dumps(lines))
        idx = next(i for i, e in enumerate(evs) if e.get("op") == "process" and e["post"] != e["pre"])
        del evs[idx]
        for j, e in enumerate(evs, 1):
            e["i"] = j
        path = os.path.join(w, "dropped.ndjson")
        with open(path, "w") as f:
            for e in evs:
                f.write(json.dumps(e) + "\n")
        r = chk.validate(w, path)
        ok = bool(r["first"]["C13"])
        print("%-50s -> C13 first failing event %d %s" % ("state-changing event removed from the trace", r["first"]["C13"], "ok" if ok else "NOT REJECTED"))
        if not ok:
            bad += 1
        print("corrupt: %d of %d corruptions not rejected as expected" % (bad, len(tests) + 1))
        return 0 if bad == 0 else 1
    finally:
        shutil.rmtree(w, ignore_errors=True)


def findings(chk):
    """Genuineness of every entry of known_findings.json: its committed scenario is run against the real code
       (a) at the commit before the repair (fixed entries; scratch worktree under /tmp, removed afterwards) or on the
           current tree (open entries), with NO deviation accepted: the listed properties must be violated;
       (b) on the current tree with the recorded open deviations: fixed entries must be silent (no VIOLATION and no
           KNOWN-FINDING), open entries must report exactly a KNOWN-FINDING."""
    import subprocess
    import tempfile
    fs = chk.findings()
    bad = 0
    w = chk.mkwork("selftest-findings")
    tmp = tempfile.mkdtemp(prefix="vt-findings-")
    try:
        chk.build()
        opn = chk.open_ids()
        chk.write_trace_cfg(w, opn)
        os.rename(os.path.join(w, "TraceRun.cfg"), os.path.join(w, "TraceOpen.cfg"))
        chk.write_trace_cfg(w, [])
        os.rename(os.path.join(w, "TraceRun.cfg"), os.path.join(w, "TraceNone.cfg"))
        # a private copy of the harness whose libmctp dependency points at the scratch worktree
        h2 = os.path.join(tmp, "harness")
        shutil.copytree(os.path.join(chk.ROOT, "harness"), h2, ignore=shutil.ignore_patterns("target"))
        wt = os.path.join(tmp, "wt")
        toml = open(os.path.join(h2, "Cargo.toml")).read().replace('path = "/repo"', 'path = "%s"' % wt)
        open(os.path.join(h2, "Cargo.toml"), "w").write(toml)
        for f in fs:
            scen = os.path.join(chk.ROOT, f["scenario"])
            # (b) current tree, recorded deviations
            tr = chk.run_scenario(w, scen, "cur-" + f["id"])
            s = chk.validate(w, tr, cfg="TraceOpen.cfg")
            viol = [p for p in chk.PROPS if s["first"][p]]
            kn = sorted({k["prop"] for k in s["known"] if k["dev"] == f["id"]})
            if f["status"] == "fixed":
                ok_b = not viol and not s["known"]
            else:
                ok_b = not viol and kn == sorted(f["properties"])
            # (a) the defect is real
            if f["status"] == "fixed":
                subprocess.run(["git", "-C", "/repo", "worktree", "remove", "--force", wt], stdout=subprocess.DEVNULL, stderr=subprocess.DEVNULL)
                r = subprocess.run(["git", "-C", "/repo", "worktree", "add", "--detach", wt, f["commit"] + "~1"],
                                   stdout=subprocess.PIPE, stderr=subprocess.STDOUT, text=True)
                if r.returncode != 0:
                    print("%s: cannot create scratch worktree: %s" % (f["id"], r.stdout[-300:]))
                    bad += 1
                    continue
                r = subprocess.run(["cargo", "build", "--release", "--offline"], cwd=h2, stdout=subprocess.PIPE, stderr=subprocess.STDOUT, text=True)
                if r.returncode != 0:
                    print("%s: harness does not build against %s~1: %s" % (f["id"], f["commit"], r.stdout[-600:]))
                    bad += 1
                    continue
                tr2 = os.path.join(w, "old-%s.ndjson" % f["id"])
                subprocess.run([os.path.join(h2, "target", "release", "mctp-verif-harness"), "run", scen, tr2], check=True,
                               stdout=subprocess.DEVNULL, stderr=subprocess.DEVNULL)
                subprocess.run(["git", "-C", "/repo", "worktree", "remove", "--force", wt], stdout=subprocess.DEVNULL, stderr=subprocess.DEVNULL)
            else:
                tr2 = tr
            s2 = chk.validate(w, tr2, cfg="TraceNone.cfg")
            viol2 = [p for p in chk.PROPS if s2["first"][p]]
            ok_a = all(p in viol2 for p in f["properties"])
            print("%-16s %-5s before repair / no deviation accepted: violates %s (listed %s) %s | current tree: violations %s known %s %s"
                  % (f["id"], f["status"], viol2, f["properties"], "ok" if ok_a else "NOT SHOWN", viol, kn, "ok" if ok_b else "UNEXPECTED"), flush=True)
            if not (ok_a and ok_b):
                bad += 1
        print("findings: %d of %d entries not demonstrated as recorded" % (bad, len(fs)))
        return 0 if bad == 0 else 1
    finally:
        subprocess.run(["git", "-C", "/repo", "worktree", "remove", "--force", os.path.join(tmp, "wt")], stdout=subprocess.DEVNULL, stderr=subprocess.DEVNULL)
        subprocess.run(["git", "-C", "/repo", "worktree", "prune"])
        shutil.rmtree(tmp, ignore_errors=True)
        shutil.rmtree(w, ignore_errors=True)


def matrix(chk, ids):
    """Which checks catch which seeded change.  For each seeded/<id>: a scratch worktree of /repo with the patch
    applied (under /tmp, removed afterwards), a private copy of the harness built against it, every driver family,
    generator and finding scenario run once (quick tier), every trace validated once; property X's check is said to
    flag the change iff X fails on a trace that X's plan (lib/plan.py) would have produced.  /repo is not touched."""
    import subprocess
    import tempfile
    import concurrent.futures as cf
    base = os.path.join(chk.ROOT, "seeded")
    if not ids:
        ids = sorted(d for d in os.listdir(base) if os.path.exists(os.path.join(base, d, "patch.diff")))
    tmp = tempfile.mkdtemp(prefix="vt-matrix-")
    w = chk.mkwork("selftest-matrix")
    out = {}
    try:
        chk.write_trace_cfg(w, chk.open_ids())
        h2 = os.path.join(tmp, "harness")
        shutil.copytree(os.path.join(chk.ROOT, "harness"), h2, ignore=shutil.ignore_patterns("target"))
        wt = os.path.join(tmp, "wt")
        toml = open(os.path.join(h2, "Cargo.toml")).read().replace('path = "/repo"', 'path = "%s"' % wt)
        open(os.path.join(h2, "Cargo.toml"), "w").write(toml)
        hb = os.path.join(h2, "target", "release", "mctp-verif-harness")
        fams = sorted({(f if isinstance(f, str) else f[0]) for p in chk.PLAN.values() for f in p.get("families", [])})
        gens = sorted({g for p in chk.PLAN.values() for k in ("gen", "gen_quick") for g in p.get(k, [])})
        scens = sorted({s for p in chk.PLAN.values() for s in p.get("scenarios", [])})
        # generator output does not depend on the code under test: produce it once
        gen_files = {}
        for g in gens:
            gen_files[g] = chk.gen_scenarios(w, g, "quick", 1)[0]
            os.rename(gen_files[g], gen_files[g] + ".keep")
            gen_files[g] += ".keep"
        for i in ids:
            subprocess.run(["git", "-C", "/repo", "worktree", "remove", "--force", wt], stdout=subprocess.DEVNULL, stderr=subprocess.DEVNULL)
            subprocess.run(["git", "-C", "/repo", "worktree", "add", "--detach", wt, "HEAD"], stdout=subprocess.DEVNULL, stderr=subprocess.DEVNULL, check=True)
            subprocess.run(["git", "-C", wt, "apply", os.path.join(base, i, "patch.diff")], check=True)
            r = subprocess.run(["cargo", "build", "--release", "--offline"], cwd=h2, stdout=subprocess.PIPE, stderr=subprocess.STDOUT, text=True)
            if r.returncode != 0:
                print("%s: does not build: %s" % (i, r.stdout[-400:]))
                continue
            traces = []
            env = dict(os.environ, VERIF_ALPHABET=os.path.join(w, "alphabet.json"))
            for f in fams:
                tr = os.path.join(w, "%s-%s.ndjson" % (i, f))
                subprocess.run([hb, "drive", f, "quick", "1", tr], env=env, check=True, stdout=subprocess.DEVNULL, stderr=subprocess.DEVNULL)
                traces.append((f, tr))
            for g, scn in gen_files.items():
                tr = os.path.join(w, "%s-gen-%s.ndjson" % (i, g))
                subprocess.run([hb, "run", scn, tr], check=True, stdout=subprocess.DEVNULL, stderr=subprocess.DEVNULL)
                traces.append(("gen:" + g, tr))
            for sc in scens:
                tr = os.path.join(w, "%s-scn-%s.ndjson" % (i, os.path.basename(sc)))
                subprocess.run([hb, "run", os.path.join(chk.ROOT, sc), tr], check=True, stdout=subprocess.DEVNULL, stderr=subprocess.DEVNULL)
                traces.append(("scn:" + sc, tr))
            parts = []
            for tag, tr in traces:
                parts.extend(chk.split_trace(tr, tag))
            fails = {}
            with cf.ThreadPoolExecutor(max_workers=10) as ex:
                futs = {ex.submit(chk.validate, w, tr): tag for tag, tr, _ in parts}
                for fu in cf.as_completed(futs):
                    tag = futs[fu].split("#")[0]
                    s = fu.result()
                    fails[tag] = fails.get(tag, set()) | {p for p in chk.PROPS if s["first"][p]}
            for tag, tr, _ in parts:
                if os.path.exists(tr):
                    os.remove(tr)
            flagged = []
            for p in chk.PROPS:
                pl = chk.PLAN[p]
                mine = {(f if isinstance(f, str) else f[0]) for f in pl.get("families", [])} | \
                       {"gen:" + g for k in ("gen", "gen_quick") for g in pl.get(k, [])} | {"scn:" + s for s in pl.get("scenarios", [])}
                if any(p in fails.get(t, ()) for t in mine):
                    flagged.append(p)
            anywhere = sorted({p for v in fails.values() for p in v})
            out[i] = {"checks_flagging": flagged, "properties_failing_on_some_trace": anywhere}
            meta = json.load(open(os.path.join(base, i, "meta.json")))
            meta["matrix"] = out[i]
            json.dump(meta, open(os.path.join(base, i, "meta.json"), "w"), indent=1)
            print("%-8s flagged by checks: %s" % (i, " ".join(flagged) or "-"), flush=True)
            mp = os.path.join(base, "MATRIX.json")
            old = json.load(open(mp)) if os.path.exists(mp) else {}
            old.update(out)
            json.dump(old, open(mp, "w"), indent=1, sort_keys=True)
        return 0
    finally:
        subprocess.run(["git", "-C", "/repo", "worktree", "remove", "--force", os.path.join(tmp, "wt")], stdout=subprocess.DEVNULL, stderr=subprocess.DEVNULL)
        subprocess.run(["git", "-C", "/repo", "worktree", "prune"])
        shutil.rmtree(tmp, ignore_errors=True)
        shutil.rmtree(w, ignore_errors=True)


def mutants(chk, ids):
    """Author's sensitivity catalogue (selftest/mutants/*.patch; each compiles and passes the 59 tests - checked when
    the catalogue was generated).  Each is applied in a scratch worktree (never /repo), a private harness is built
    against it, the traces of the plan of its property are produced and validated, and the property must fail on one
    of them - except the entries marked "control" (behaviour-preserving edits), which no property may flag."""
    import subprocess
    import tempfile
    import concurrent.futures as cf
    cat = json.load(open(os.path.join(chk.ROOT, "selftest", "mutants", "catalogue.json")))
    if ids:
        cat = [m for m in cat if m["id"] in ids]
    tmp = tempfile.mkdtemp(prefix="vt-mutants-")
    w = chk.mkwork("selftest-mutants")
    bad = []
    try:
        chk.write_trace_cfg(w, chk.open_ids())
        h2 = os.path.join(tmp, "harness")
        shutil.copytree(os.path.join(chk.ROOT, "harness"), h2, ignore=shutil.ignore_patterns("target"))
        wt = os.path.join(tmp, "wt")
        toml = open(os.path.join(h2, "Cargo.toml")).read().replace('path = "/repo"', 'path = "%s"' % wt)
        open(os.path.join(h2, "Cargo.toml"), "w").write(toml)
        hb = os.path.join(h2, "target", "release", "mctp-verif-harness")
        gen_cache = {}
        for m in cat:
            prop = m["property"]
            pl = chk.PLAN[prop]
            if m.get("control"):
                # a behaviour-preserving edit must not be flagged by ANY property on ANY trace: run everything
                pl = {"families": sorted({(f if isinstance(f, str) else f[0]) for p in chk.PLAN.values() for f in p.get("families", [])}),
                      "gen_quick": sorted({g for p in chk.PLAN.values() for k in ("gen", "gen_quick") for g in p.get(k, [])})}
            subprocess.run(["git", "-C", "/repo", "worktree", "remove", "--force", wt], stdout=subprocess.DEVNULL, stderr=subprocess.DEVNULL)
            subprocess.run(["git", "-C", "/repo", "worktree", "add", "--detach", wt, "HEAD"], stdout=subprocess.DEVNULL, stderr=subprocess.DEVNULL, check=True)
            subprocess.run(["git", "-C", wt, "apply", os.path.join(chk.ROOT, "selftest", "mutants", m["id"] + ".patch")], check=True)
            r = subprocess.run(["cargo", "build", "--release", "--offline"], cwd=h2, stdout=subprocess.PIPE, stderr=subprocess.STDOUT, text=True)
            if r.returncode != 0:
                print("%s: does not build" % m["id"])
                bad.append(m["id"])
                continue
            traces = []
            env = dict(os.environ, VERIF_ALPHABET=os.path.join(w, "alphabet.json"))
            for g in pl.get("gen_quick", pl.get("gen", [])):
                if g not in gen_cache:
                    scn = chk.gen_scenarios(w, g, "quick", 1)[0]
                    os.rename(scn, scn + ".keep")
                    gen_cache[g] = scn + ".keep"
                tr = os.path.join(w, "%s-gen-%s.ndjson" % (m["id"], g))
                subprocess.run([hb, "run", gen_cache[g], tr], check=True, stdout=subprocess.DEVNULL, stderr=subprocess.DEVNULL)
                traces.append(("gen:" + g, tr))
            for f in pl.get("families", []):
                f = f if isinstance(f, str) else f[0]
                tr = os.path.join(w, "%s-%s.ndjson" % (m["id"], f))
                subprocess.run([hb, "drive", f, "quick", "1", tr], env=env, check=True, stdout=subprocess.DEVNULL, stderr=subprocess.DEVNULL)
                traces.append((f, tr))
            parts = []
            for tag, tr in traces:
                parts.extend(chk.split_trace(tr, tag))
            failing = set()
            with cf.ThreadPoolExecutor(max_workers=10) as ex:
                for s in ex.map(lambda t: chk.validate(w, t[1]), parts):
                    failing |= {p for p in chk.PROPS if s["first"][p]}
            for _, tr, _ in parts:
                if os.path.exists(tr):
                    os.remove(tr)
            if m.get("control"):
                ok = not failing
                print("%-18s control: flagged by %s %s" % (m["id"], sorted(failing) or "-", "ok" if ok else "FALSE ALARM"), flush=True)
            else:
                ok = prop in failing
                print("%-18s %s: %s fails %s  (all failing: %s)" % (m["id"], m["what"], prop, "ok" if ok else "NOT DETECTED", sorted(failing)), flush=True)
            if not ok:
                bad.append(m["id"])
        print("mutants: %d of %d not as expected: %s" % (len(bad), len(cat), bad))
        return 0 if not bad else 1
    finally:
        subprocess.run(["git", "-C", "/repo", "worktree", "remove", "--force", os.path.join(tmp, "wt")], stdout=subprocess.DEVNULL, stderr=subprocess.DEVNULL)
        subprocess.run(["git", "-C", "/repo", "worktree", "prune"])
        shutil.rmtree(tmp, ignore_errors=True)
        shutil.rmtree(w, ignore_errors=True)
