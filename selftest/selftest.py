"""Self-tests of the verification machinery (./check selftest <what> ...).

  seeded [ids...] [--all-checks]   apply each seeded/<id>/patch.diff to /repo, run the checks (the check of the
                                   property the change was written against, or all 19), record who flags it in
                                   seeded/<id>/meta.json, undo the change straight afterwards
  deviations                       every deviation of Findings.tla switched on alone must make TLC violate the
                                   listed invariants of the models (finding reproduces / invariants are not vacuous)
  corrupt                          binding: corrupt single recorded fields of a valid trace, the monitor must reject
  mutants [ids...]                 the author's sensitivity catalogue (selftest/mutants/*.patch, scratch worktrees):
                                   each must fail its property; the control entries must not be flagged at all
  matrix [ids...]                  which checks catch which seeded change (scratch worktrees, /repo untouched);
                                   writes seeded/MATRIX.json
  findings                         every known_findings.json entry is demonstrated on the real code before its repair
                                   (scratch worktree) and is silent / reported as KNOWN-FINDING on the current tree
  clean [n]                        the unchanged tree must stay silent for n seeds (default 5), all 19 checks
  wild [names]                     17 gross changes (encoders / decoder / probe / processor return nonsense or panic):
                                   the harness must survive, the monitor must evaluate, something must be flagged
"""
import json
import os
import random
import re
import shutil
import subprocess
import sys
import time

ROOT = os.path.dirname(os.path.dirname(os.path.abspath(__file__)))
PROPS = ["C%02d" % i for i in range(1, 20)]


def sh(cmd, **kw):
    return subprocess.run(cmd, shell=True, stdout=subprocess.PIPE, stderr=subprocess.STDOUT, text=True, **kw)


def repo_clean():
    r = sh("git -C /repo status --porcelain --untracked-files=no")
    return r.stdout.strip() == ""


def run_check(prop, tier="quick", seed=1):
    env = dict(os.environ, VERIF_SEED=str(seed))
    t = time.time()
    r = subprocess.run([os.path.join(ROOT, "check"), prop, "--tier", tier], cwd=ROOT, env=env,
                       stdout=subprocess.PIPE, stderr=subprocess.PIPE, text=True)
    viol = re.findall(r"^VIOLATION property=(\S+) replay=(\S+)", r.stdout, re.M)
    return {"prop": prop, "rc": r.returncode, "violations": viol, "wall_s": round(time.time() - t, 1),
            "stderr_tail": r.stderr[-600:] if r.returncode == 2 else ""}


def seeded(args):
    allchecks = "--all-checks" in args
    ids = [a for a in args if not a.startswith("--")]
    base = os.path.join(ROOT, "seeded")
    if not ids:
        ids = sorted(d for d in os.listdir(base) if os.path.exists(os.path.join(base, d, "patch.diff")))
    if not repo_clean():
        print("selftest: /repo has uncommitted changes to tracked files; refusing")
        return 2
    missed = []
    for i in ids:
        d = os.path.join(base, i)
        meta = json.load(open(os.path.join(d, "meta.json")))
        r = sh("git -C /repo apply %s" % os.path.join(d, "patch.diff"))
        if r.returncode != 0:
            print("%s: patch does not apply to /repo: %s" % (i, r.stdout[-300:]))
            missed.append(i)
            continue
        try:
            props = PROPS if allchecks else sorted(set([meta["property"]] + meta.get("also_run", []) + meta.get("expected", [])))
            res = [run_check(p, tier=meta.get("expected_tier", "quick")) for p in props]
        finally:
            sh("git -C /repo checkout -- .")
        flagged = [x["prop"] for x in res if x["rc"] == 1]
        errors = [x for x in res if x["rc"] == 2]
        meta["detected_by"] = flagged
        meta["checks_run"] = {x["prop"]: ("VIOLATION" if x["rc"] == 1 else "tool error" if x["rc"] == 2 else "silent") for x in res}
        meta["what_i_ran"] = "git -C /repo apply seeded/%s/patch.diff; ./check <prop> --tier %s for %s; git -C /repo checkout -- ." % (
            i, meta.get("expected_tier", "quick"), "all 19 properties" if allchecks else ", ".join(props))
        json.dump(meta, open(os.path.join(d, "meta.json"), "w"), indent=1)
        status = "DETECTED by " + ",".join(flagged) if flagged else "MISSED"
        want = meta.get("expected", [meta["property"]])
        if not any(p in flagged for p in want):
            status += "  (expected %s silent)" % ",".join(want)
            missed.append(i)
        elif meta["property"] not in flagged:
            status += "  (nominal property %s silent, see triage_note)" % meta["property"]
        print("%-10s %s%s" % (i, status, ("  tool errors: %s" % [(e["prop"], e["stderr_tail"][-200:]) for e in errors]) if errors else ""), flush=True)
    print("seeded: %d run, %d not flagged by the check of their own property: %s" % (len(ids), len(missed), missed))
    return 0 if not missed else 1


def clean(args):
    n = int(args[0]) if args else 5
    bad = []
    for seed in range(2, 2 + n):
        for p in PROPS:
            r = run_check(p, seed=seed)
            if r["rc"] != 0:
                bad.append((seed, p, r["rc"], r["violations"], r["stderr_tail"]))
                print("seed %d %s: rc=%d %s %s" % (seed, p, r["rc"], r["violations"], r["stderr_tail"]), flush=True)
        print("seed %d done" % seed, flush=True)
    print("clean: %d alarms / tool errors on the unchanged tree over %d seeds" % (len(bad), n))
    return 0 if not bad else 1


def main(args, chk):
    if not args:
        print(__doc__)
        return 2
    what, rest = args[0], args[1:]
    if what == "seeded":
        return seeded(rest)
    if what == "clean":
        return clean(rest)
    if what == "deviations":
        import st_models
        return st_models.deviations(chk)
    if what == "mutants":
        import st_models
        return st_models.mutants(chk, rest)
    if what == "matrix":
        import st_models
        return st_models.matrix(chk, rest)
    if what == "findings":
        import st_models
        return st_models.findings(chk)
    if what == "wild":
        import wild
        return wild.main(chk, rest)
    if what == "corrupt":
        import st_models
        return st_models.corrupt(chk)
    print(__doc__)
    return 2
