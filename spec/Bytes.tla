------------------------------- MODULE Bytes -------------------------------
(***************************************************************************)
(* Byte and bit-field arithmetic shared by every other module.  A byte is  *)
(* an integer 0..255, a packet is a sequence of bytes.  Bit positions are  *)
(* "LSB0 within the byte": bit 7 is the most significant bit on the wire.  *)
(* Quantities wider than 16 bits are always byte sequences (TLC integers   *)
(* are 32-bit signed).                                                     *)
(***************************************************************************)
EXTENDS Naturals, Sequences

Byte == 0..255

IsByteSeq(s) == \A i \in 1..Len(s) : s[i] \in Byte

(* the value of bits hi..lo of byte b *)
Bits(b, hi, lo) == (b \div (2^lo)) % (2^(hi - lo + 1))

(* byte b with bits hi..lo replaced by v truncated to the field width *)
WithBits(b, hi, lo, v) ==
    (b - Bits(b, hi, lo) * (2^lo)) + (v % (2^(hi - lo + 1))) * (2^lo)

Fill(n, v) == [i \in 1..n |-> v]

(* 0-based half-open slice s[lo, hi) *)
Slice0(s, lo, hi) == SubSeq(s, lo + 1, hi)

(* s with the (1-based) element i replaced by v *)
Patch(s, i, v) == [s EXCEPT ![i] = v]

RECURSIVE FlattenFrom(_, _)
FlattenFrom(ss, i) == IF i > Len(ss) THEN << >> ELSE ss[i] \o FlattenFrom(ss, i + 1)
Flatten(ss) == FlattenFrom(ss, 1)

(* big-endian bytes of a 16-bit integer *)
BE16(v) == << (v \div 256) % 256, v % 256 >>

Min(a, b) == IF a < b THEN a ELSE b
Max(a, b) == IF a > b THEN a ELSE b
=============================================================================
