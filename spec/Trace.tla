-------------------------------- MODULE Trace --------------------------------
(***************************************************************************)
(* Trace validation as a total monitor.                                    *)
(*                                                                         *)
(* Rec is a trace recorded by /verif/harness from the real libmctp: one    *)
(* event per API call with all arguments, the full result, the buffers     *)
(* and both EID accessors before and after.  Each step of this spec        *)
(* consumes one event, evaluates every property predicate on it against    *)
(* the specification (Codec, Responder, Layout, Codes), updates the model  *)
(* state (configuration, UUID; the EID follows the observation after it    *)
(* was compared with the value the model derives), and records             *)
(*   - which properties failed on the event and no open deviation explains *)
(*   - which failures are exactly an open known deviation                  *)
(*   - on which events each property's antecedent held (non-trivial)       *)
(* The monitor is deterministic and never gets stuck on a well-formed      *)
(* trace, so the behaviour has exactly Len(Rec)+1 states; the wrapper      *)
(* reads the summary printed in the last state.                            *)
(***************************************************************************)
EXTENDS Integers, Sequences, FiniteSets, TLC, Json, IOUtils, Bytes, Codes, Codec, Responder, Findings

CONSTANT Open                    \* open known deviations (subset of Deviation)

L == INSTANCE Layout

Rec == ndJsonDeserialize(IOEnv.TRACE)

PropSeq == << "C01", "C02", "C03", "C04", "C05", "C06", "C07", "C08", "C09", "C10",
              "C11", "C12", "C13", "C14", "C15", "C16", "C17", "C18", "C19",
              (* behaviour the specification covers beyond the listed properties ("extras": reported in the   *)
              (* evidence and on stderr, never as a VIOLATION of a listed property)                          *)
              "X01" >>
NProps == Len(PropSeq)
Props == {PropSeq[i] : i \in 1..NProps}
PropIdx(x) == CHOOSE i \in 1..NProps : PropSeq[i] = x

VARIABLES l,        \* index of the next event
          ctxs,     \* model state: context id -> [addr, mts, vids, eidReq, eidResp, uuid]
          lastEnc,  \* the previous encoder event (for C01 pairs and C16 independence)
          lastDec,  \* the previous decode event (for C09 context independence)
          st,       \* statistics / verdicts
          ntbuf     \* pending per-event non-triviality masks

vars == << l, ctxs, lastEnc, lastDec, st, ntbuf >>

(* one check of one property on one event *)
Chk(x, ok, nt, devs) == [p |-> x, ok |-> ok, nt |-> nt, devs |-> IF ok THEN {} ELSE devs \cap Open, sk |-> FALSE]
Skip(x) == [p |-> x, ok |-> TRUE, nt |-> FALSE, devs |-> {}, sk |-> TRUE]    \* outside the property's domain: not an evaluation

NoEnc == [ok |-> FALSE, key |-> << >>, kind |-> "", buf |-> << >>, type |-> 0, lo |-> 0,
          payload |-> << >>, cc |-> 0, fits |-> FALSE]
NoDec == [p |-> << -1 >>, res |-> [kind |-> "none"]]

OkLen(n) == [kind |-> "ok", len |-> n]

(* ------------------------------------------------------------------ *)
(* outcome comparison helpers                                          *)
SameDec(r, x) ==        \* observed decode result r equals the modelled outcome x
    /\ r.kind = x.kind
    /\ (r.kind = "ok"  => r.type = x.type /\ r.lo = x.lo /\ r.hi = x.hi)
    /\ (r.kind = "err" => r.type = x.type /\ r.err = x.err /\ r.cc = x.cc)

SameRes(a, b) ==        \* two observed results agree (decode vs. process)
    /\ a.kind = b.kind
    /\ (a.kind = "ok"  => a.type = b.type /\ a.lo = b.lo /\ a.hi = b.hi)
    /\ (a.kind = "err" => a.type = b.type /\ a.err = b.err /\ a.cc = b.cc)

Eids(m) == [eid_req |-> m.eidReq, eid_resp |-> m.eidResp]

(* ------------------------------------------------------------------ *)
(* NOTE on evaluation: TLC re-evaluates a LET-bound name at every use but    *)
(* evaluates an operator argument once.  Every shared sub-result below is    *)
(* therefore passed down as an argument (the "...2" / "...3" operators).     *)
(* ------------------------------------------------------------------ *)
(* encoder events                                                      *)
EncSpec(e, m) ==
    CASE e.op = "enc_req"    -> [refused |-> ReqRefused(e.name, e.args), type |-> MT_CONTROL,
                                 rest |-> ReqRest(e.name, e.args), lo |-> 11,
                                 payload |-> ReqData(e.name, e.args), cc |-> 0]
      [] e.op = "enc_resp"   -> [refused |-> RespRefused(e.name, e.args), type |-> MT_CONTROL,
                                 rest |-> RespRest(e.name, e.args, e.pre.eid_resp), lo |-> 12,
                                 payload |-> RespFields(e.name, e.args, e.pre.eid_resp), cc |-> e.args.cc]
      [] e.op = "enc_vendor" -> IF VendorRefused(e.args)
                                THEN [refused |-> TRUE, type |-> 0, rest |-> << >>, lo |-> 9, payload |-> << >>, cc |-> 0]
                                ELSE [refused |-> FALSE, type |-> VendorType(e.args), rest |-> VendorRest(e.args),
                                      lo |-> 9, payload |-> VendorRest(e.args), cc |-> 0]
      [] e.op = "enc_gen"    -> [refused |-> FALSE, type |-> GenType[e.kind], rest |-> GenRest(e.args),
                                 lo |-> 9, payload |-> GenRest(e.args), cc |-> 0]

EncKey(e) == << e.op, e.ctx, IF e.op \in {"enc_req", "enc_resp"} THEN e.name ELSE "",
                IF e.op = "enc_gen" THEN << e.half, e.kind >> ELSE << >>, e.args, e.pre.eid_resp >>

(* a control message is a response iff its Rq bit is clear - whichever half or writer produced it; the generic *)
(* control writer with an empty body is left unconstrained as well                                             *)
IsRespEnc(e) == \/ e.op = "enc_resp"
                \/ (e.op = "enc_gen" /\ e.kind = "control" /\
                     (e.half = "resp" \/ Len(GenRest(e.args)) = 0 \/ GenRest(e.args)[1] < 128))

(* sp = EncSpec, total = packet length the spec expects, wr = the writer's   *)
(* as-is outcome, body = observed bytes between the type byte and the PEC    *)
EncChecks3(e, m, sp, total, wr, okk, n, buf, body, wrapExplains) ==
    { Chk("C03", okk => (n >= 1 /\ Len(buf) = n /\ PecGood(buf)), okk, {}),
      IF e.args.dst < 128 /\ m.addr < 128
      THEN Chk("C04",
               /\ (~sp.refused /\ total > MaxTotal) => e.res.kind = "err"
               /\ okk => /\ n >= 4 /\ Len(buf) = n
                         /\ buf[1] = e.args.dst * 2 /\ buf[2] = 15 /\ buf[3] = n - 4
                         /\ buf[4] = m.addr * 2 + 1
                         /\ e.probe = << OkLen(n) >>,
               okk \/ total > MaxTotal, IF wrapExplains THEN {"BYTECOUNT_WRAP"} ELSE {})
      ELSE Skip("C04"),
      Chk("C05", okk => /\ n >= 10 /\ Len(buf) = n
                        /\ buf[5] = 1 /\ buf[6] = e.args.dst /\ buf[7] = m.addr
                        /\ (IF IsRespEnc(e) THEN buf[8] \div 16 = 12 ELSE buf[8] = 200)
                        /\ buf[9] = sp.type,
          okk, {}),
      IF e.op = "enc_req"
      THEN Chk("C06", /\ okk => (n >= 12 /\ Len(buf) = n /\ body = sp.rest)
                      /\ (~sp.refused /\ total <= MaxTotal /\ e.buf_len >= total) => e.res.kind # "err",
               okk,
               IF e.name = "query_hop" /\ okk /\ n >= 12 /\ Len(buf) = n
                  /\ body = [sp.rest EXCEPT ![2] = 14]
               THEN {"QUERYHOP_CODE"} ELSE {})
      ELSE Skip("C06"),
      IF e.op = "enc_resp"
      THEN Chk("C07", /\ okk => /\ n >= 13 /\ Len(buf) = n
                             /\ buf[10] \div 32 = 0 /\ buf[11] = RespCmd[e.name] /\ buf[12] = e.args.cc
                             /\ (e.args.cc = 0 => Tail(body) = Tail(sp.rest))
                      /\ (~sp.refused /\ total <= MaxTotal /\ e.buf_len >= total) => e.res.kind # "err",
               okk, {})
      ELSE Skip("C07"),
      IF e.op = "enc_vendor" \/ (e.op = "enc_gen" /\ e.kind # "control")
      THEN Chk("C08", /\ sp.refused => e.res.kind = "err"
                      /\ okk => (~sp.refused /\ n >= 10 /\ Len(buf) = n /\ buf[9] = sp.type /\ body = sp.rest)
                      /\ (~sp.refused /\ total <= MaxTotal /\ e.buf_len >= total) => e.res.kind # "err",
               TRUE, {})
      ELSE Skip("C08"),
      Chk("C16",
          /\ sp.refused => (e.res.kind = "err" /\ e.tail_diff = << >>)
          /\ (~sp.refused /\ total <= MaxTotal /\ e.buf_len >= total) => okk
          /\ okk => (n <= e.buf_len /\ Len(buf) = n /\ e.tail_diff = << >>)
          /\ (lastEnc.key = EncKey(e)) => (lastEnc.kind = e.res.kind /\ lastEnc.buf = buf),
          TRUE, IF wrapExplains /\ total <= MaxTotal THEN {"BYTECOUNT_WRAP"} ELSE {}),
      Chk("C13", e.pre = Eids(m) /\ e.post = e.pre, FALSE, {}) }

WrapExplains(e, sp, total, wr) ==
    /\ ~sp.refused /\ total >= 256
    /\ e.res.kind = wr.kind
    /\ (e.res.kind = "ok" => e.res.len = total /\ Len(e.buf) = total /\ e.buf[3] = wr.count)

EncChecks2b(e, m, sp, total, wr) ==
    EncChecks3(e, m, sp, total, wr, e.res.kind = "ok", e.res.len, e.buf,
               SubSeq(e.buf, 10, e.res.len - 1), WrapExplains(e, sp, total, wr))
EncChecks2(e, m, sp, total) == EncChecks2b(e, m, sp, total, WriterAsIs(total, Open))
EncChecks1(e, m, sp) == EncChecks2(e, m, sp, TotalLen(sp.rest))
EncChecks(e, m) == EncChecks1(e, m, EncSpec(e, m))

EncRemember1(e, sp) ==
    [ok |-> e.res.kind = "ok", key |-> EncKey(e), kind |-> e.res.kind, buf |-> e.buf,
     type |-> sp.type, lo |-> sp.lo, payload |-> sp.payload, cc |-> sp.cc,
     fits |-> ~sp.refused /\ TotalLen(sp.rest) <= MaxTotal]
EncRemember(e, m) == EncRemember1(e, EncSpec(e, m))

(* ------------------------------------------------------------------ *)
(* C01 on a decode (or process) of exactly the bytes the previous encoder produced *)
PairHolds(p, r) ==
    IF lastEnc.cc = 0
    THEN /\ r.kind = "ok" /\ r.type = lastEnc.type
         /\ r.lo = lastEnc.lo /\ r.hi = Len(p) - 1
         /\ Slice0(p, r.lo, r.hi) = lastEnc.payload
    ELSE r.kind = "err" /\ r.type = MT_CONTROL /\ r.err = "Unsuccessful" /\ r.cc = lastEnc.cc

IsPair(p) == lastEnc.ok /\ lastEnc.fits /\ lastEnc.buf = p

DevsIfSame(r, x) == IF SameDec(r, x) THEN x.dev ELSE {}
DecDevs(p, r, k) == DevsIfSame(r, DecK(p, Open, k))

(* ------------------------------------------------------------------ *)
(* decode events                                                       *)
DecodeChecks2(e, m, p, r, k, ddevs) ==
    { Chk("C10", r.kind # "panic", TRUE, ddevs),
      Chk("C02", r.kind = "ok" => k, Len(p) >= 1 /\ ~k, {}),
      IF r.kind = "panic" THEN Skip("C09")
      ELSE Chk("C09", /\ DecodeAllowedK(p, r, k)
                      /\ (lastDec.p = p /\ lastDec.res.kind # "panic") => SameRes(lastDec.res, r),
               Claimed(p), ddevs),
      IF IsPair(p) THEN Chk("C01", PairHolds(p, r), TRUE, ddevs) ELSE Skip("C01"),
      Chk("C13", e.pre = Eids(m) /\ e.post = e.pre, FALSE, {}) }
DecodeChecks1(e, m, k) == DecodeChecks2(e, m, e.p, e.res, k, DecDevs(e.p, e.res, k))
DecodeChecks(e, m) == DecodeChecks1(e, m, PecGood(e.p))

(* ------------------------------------------------------------------ *)
(* process events                                                      *)
IsAcceptedReq(p, k) == WellFormedK(p, k) /\ IsCtl(p) /\ Rq(p) = 1

Untouched(e) == e.res.resp_len = -1 /\ e.rbuf = << >> /\ e.rtail_diff = << >>

(* "is itself a well-formed packet": the specification's own decoder relation accepts the response, or it   *)
(* carries a non-Success completion code, or it is one of the response kinds C09 leaves unclaimed           *)
RespWellFormed(R) ==
    /\ HdrOk(R) /\ IsCtl(R) /\ Len(R) >= 13 /\ Rq(R) = 0 /\ Bits(R[10], 6, 5) = 0
    /\ (CcByte(R) # 0 \/ IsUnclaimedResp(R) \/ CtlOk(R))

C12Frame(p, m, R, n, iid) ==
    /\ n >= 13 /\ Len(R) = n /\ RespWellFormed(R)
    /\ R[1] = p[7] * 2 /\ R[2] = 15 /\ R[3] = n - 4 /\ R[4] = m.addr * 2 + 1
    /\ R[5] = 1 /\ R[6] = p[7] /\ R[7] = m.addr /\ R[8] \div 16 = 12
    /\ R[9] = 0 /\ R[10] = iid /\ R[11] = Cmd(p)
    /\ PecGood(R)

C12Domain(p, m, e, acc) ==
    /\ acc /\ Bits(p[10], 6, 5) = 0 /\ Len(p) <= 255
    /\ Answered(p, m)
    /\ (Cmd(p) = 1 /\ p[12] \in {0, 1}) => p[13] \in 1..254
    /\ p[4] \div 2 = p[7] /\ p[7] < 128 /\ m.addr < 128
    /\ e.rbuf_len >= 64

AsIsSame(e, r, R, n, x) ==
    /\ SameDec(r, x)
    /\ (x.has => n = Len(x.resp) /\ R = x.resp /\ e.rtail_diff = << >>)
    /\ (~x.has => Untouched(e))
    /\ e.post = (IF x.neweid = -1 THEN e.pre ELSE [eid_req |-> x.neweid, eid_resp |-> x.neweid])

(* pecok = PEC of the input is right, acc = accepted control request,        *)
(* xdevs = open deviations that explain the whole observed outcome           *)
ProcessChecks3(e, m, p, r, dc, R, n, pecok, acc, xdevs, panicked) ==
    { Chk("C10", dc.kind # "panic" /\ ~panicked, TRUE,
          IF panicked THEN xdevs ELSE DecDevs(p, dc, pecok)),
      Chk("C02", /\ r.kind = "ok" => pecok
                 /\ ~pecok => (Untouched(e) /\ e.post = e.pre),
          Len(p) >= 1 /\ ~pecok, {}),
      (* decoding panicked: C10's business alone.  Decoding returned but processing panicked: processing does *)
      (* not report what decoding reports - C11 fails as well as C10.                                          *)
      IF dc.kind = "panic" THEN Skip("C11")
      ELSE IF panicked THEN Chk("C11", FALSE, TRUE, xdevs)
      ELSE Chk("C11", /\ SameRes(dc, r)
                      /\ n >= 0 => /\ r.kind = "ok" /\ r.type = MT_CONTROL /\ Len(p) >= 10 /\ Rq(p) = 1
                                   /\ n <= e.rbuf_len /\ Len(R) = n /\ e.rtail_diff = << >>
                      /\ n < 0 => Untouched(e),
               TRUE, xdevs),
      (* inside the domains of C12, C14 and C15 the request must be answered: a panic is no answer *)
      IF C12Domain(p, m, e, acc)
      THEN Chk("C12", r.kind = "ok" /\ C12Frame(p, m, R, n, Iid(p)) /\ e.rprobe = << OkLen(n) >>, TRUE,
               IF Iid(p) # 0 /\ r.kind = "ok" /\ C12Frame(p, m, R, n, 0) THEN {"IID_ZERO"} ELSE {})
      ELSE Skip("C12"),
      Chk("C13",
          /\ e.pre = Eids(m)
          /\ IF acc /\ Cmd(p) = 1 /\ p[12] \in {0, 1} /\ ~panicked
             THEN IF p[13] \in 1..254
                  THEN /\ e.post = [eid_req |-> p[13], eid_resp |-> p[13]]
                       /\ r.kind = "ok" /\ n >= 16 /\ Len(R) = n
                       /\ R[12] = 0 /\ Bits(R[13], 5, 4) = 0 /\ R[14] = p[13]
                  ELSE e.post \in {e.pre, [eid_req |-> p[13], eid_resp |-> p[13]]}
             ELSE e.post = e.pre
          /\ (acc /\ ~panicked /\ Cmd(p) = 1 /\ p[12] = 3) => (r.kind = "ok" /\ n >= 13 /\ Len(R) = n /\ R[12] = CC_INVALID_DATA)
          /\ (acc /\ ~panicked /\ Cmd(p) = 2 /\ Len(p) <= 255) => (r.kind = "ok" /\ n >= 14 /\ Len(R) = n /\ R[12] = 0 /\ R[13] = e.pre.eid_resp),
          Len(p) >= 11 /\ p[11] \in {1, 2}, {}),
      IF acc /\ Cmd(p) = 6 /\ p[12] < Len(m.vids) /\ Len(p) <= 255
      THEN Chk("C14", r.kind = "ok" /\ n >= 13 /\ Len(R) = n /\ SubSeq(R, 12, n - 1) = AnswerBody(p, m, 0), TRUE, {})
      ELSE Skip("C14"),
      IF acc /\ Cmd(p) \in 3..5 /\ Len(p) <= 255
      THEN Chk("C15", r.kind = "ok" /\ n >= 13 /\ Len(R) = n /\ SubSeq(R, 12, n - 1) = AnswerBody(p, m, 0), TRUE, {})
      ELSE Skip("C15"),
      IF IsPair(p) /\ ~panicked THEN Chk("C01", PairHolds(p, r), TRUE, xdevs \cup DecDevs(p, r, pecok)) ELSE Skip("C01"),
      (* X01 (extra): an accepted control request the endpoint cannot answer - reserved / unsupported command,  *)
      (* unsupported Set Endpoint ID operation, vendor selector beyond the configured sets - changes nothing and *)
      (* is either not answered or answered with a well-formed, correlated response carrying an error code      *)
      IF acc /\ ~Answered(p, m) /\ Len(p) <= 255 /\ p[4] \div 2 = p[7] /\ p[7] < 128 /\ m.addr < 128
      THEN Chk("X01", /\ ~panicked /\ e.post = e.pre
                      /\ n >= 0 => (C12Frame(p, m, R, n, Iid(p)) /\ R[12] # 0),
               TRUE, {})
      ELSE Skip("X01"),
      (* a response written by the processor is a packet the library encodes: C03-C05 bind it too *)
      IF ~panicked /\ n >= 0 /\ acc
      THEN Chk("C03", Len(R) = n /\ n >= 1 /\ PecGood(R), TRUE, {}) ELSE Skip("C03"),
      (* (the requester's SMBus address and EID must name the same requester, as in C12's domain) *)
      IF ~panicked /\ n >= 0 /\ acc /\ p[7] < 128 /\ m.addr < 128 /\ p[4] \div 2 = p[7]
      THEN Chk("C04", Len(R) = n /\ n >= 4 /\ R[1] = p[7] * 2 /\ R[2] = 15 /\ R[3] = n - 4 /\ R[4] = m.addr * 2 + 1,
               TRUE, {}) ELSE Skip("C04"),
      IF ~panicked /\ n >= 0 /\ acc
      THEN Chk("C07", Len(R) = n /\ n >= 13 /\ R[10] \div 32 = 0 /\ R[11] = Cmd(p), TRUE, {}) ELSE Skip("C07"),
      IF ~panicked /\ n >= 0 /\ acc
      THEN Chk("C05", Len(R) = n /\ n >= 10 /\ R[5] = 1 /\ R[6] = p[7] /\ R[7] = m.addr /\ R[8] \div 16 = 12
                      /\ R[9] = MT_CONTROL, TRUE, {}) ELSE Skip("C05") }

XDevs(e, x) == IF AsIsSame(e, e.res, e.rbuf, e.res.resp_len, x) THEN x.dev ELSE {}
ProcessChecks2(e, m, pecok, x) ==
    ProcessChecks3(e, m, e.p, e.res, e.dec, e.rbuf, e.res.resp_len, pecok,
                   IsAcceptedReq(e.p, pecok), XDevs(e, x), e.res.kind = "panic")
ProcessChecks1(e, m, pecok) == ProcessChecks2(e, m, pecok, ProcK(e.p, m, Open, pecok))
ProcessChecks(e, m) == ProcessChecks1(e, m, PecGood(e.p))

(* ------------------------------------------------------------------ *)
(* length probe                                                        *)
LenMatches(r, p) ==
    LET g == GetLengthOf(p) IN
    IF g.kind = "ok" THEN r.kind = "ok" /\ r.len = g.len
                     ELSE r.kind = "err" /\ r.type = MT_INVALID

GetLengthChecks(e, m) ==
    LET p == e.p   r == e.res IN
    { Chk("C10", r.kind # "panic", TRUE, IF Len(p) < 3 THEN {"SHORT_PROBE"} ELSE {}),
      Chk("C17", IF Len(p) >= 3 THEN LenMatches(r, p) ELSE r.kind = "err", TRUE,
          IF Len(p) < 3 /\ r.kind = "panic" THEN {"SHORT_PROBE"} ELSE {}),
      Chk("C13", e.pre = Eids(m) /\ e.post = e.pre, FALSE, {}) }

BatchChecks(e) ==
    { Chk("C17", Len(e.results) = 1 /\ LenMatches(e.results[1], << 0, e.b1, e.b2 >>), TRUE, {}) }

(* ------------------------------------------------------------------ *)
(* header views and conversions                                        *)
NarrowViews == {"smbus", "transport", "body", "control", "routing"}

HdrNewRaw(v, a) ==
    CASE v = "transport" -> << a.version % 16, 0, 0, 0 >>
      [] v = "smbus"     -> << 0, 0, 0, 0 >>
      [] v = "body"      -> << a.msg_type % 128 >>
      [] v = "control"   -> << (a.rq % 2) * 128 + (a.d % 2) * 64 + (a.instance_id % 32),
                               CmdValue(CmdOfByte(a.command_code)) >>
      [] v = "routing"   -> << a.entry_type % 16, a.eid_range_size, a.first_eid, a.physical_address >>
      [] v \in {"pci", "iana"} -> a.vendor_id

HeaderChecks(e) ==
    LET v == e.view
        good == e.res.kind = "ok"
    IN
    { Chk("C18",
        good /\
        CASE e.op = "hdr_get" ->
               (* a view is a window on the first ViewLen bytes of its backing buffer, whatever follows them *)
               IF v \in NarrowViews THEN e.fields = L!GetAll(v, e.raw) ELSE e.wide = SubSeq(e.raw, 1, L!ViewLen[v])
          [] e.op = "hdr_set" ->
               IF v \in NarrowViews
               THEN LET after == L!Set(v, e.raw, e.field, e.value) IN
                    e.raw_after = after /\ e.fields = L!GetAll(v, after)
               ELSE /\ e.raw_after = e.value \o SubSeq(e.raw, L!ViewLen[v] + 1, Len(e.raw))
                    /\ e.wide = e.value
          [] e.op = "hdr_from_buf" ->
               LET valid == IF v = "transport" THEN L!TransportValid(e.raw, e.version)
                                               ELSE L!BodyHdrValid(e.raw)
               IN  (e.ok = 1) = valid /\ (valid => e.raw_out = e.raw)
          [] e.op = "hdr_new" -> e.raw_out = HdrNewRaw(v, e.args),
        TRUE, {}) }

ConvChecks(e) ==
    LET b == e.byte IN
    { Chk("C19",
        e.res.kind = "ok" /\
        CASE e.enum = "command"    -> e.variant = CmdOfByte(b) /\ e.variant_value = CmdValue(e.variant)
                                      /\ (b \in 0..20 => e.variant_value = b)
          [] e.enum = "msgtype"    -> e.variant = TypeOfByte(b) /\ e.variant_value = MsgTypeValue(e.variant)
                                      /\ (b \in SupportedTypes => e.variant_value = b)
          [] e.enum = "completion" -> b \in 0..5 => (e.variant = CcOfByte(b) /\ e.variant_value = b),
        TRUE, {}) }

(* ------------------------------------------------------------------ *)
(* state accessors only: both EID cells                                *)
SetEidChecks(e, m) ==
    { Chk("C13", /\ e.pre = Eids(m)
                 /\ e.post = (IF e.half = "req" THEN [e.pre EXCEPT !.eid_req = e.eid]
                                                ELSE [e.pre EXCEPT !.eid_resp = e.eid]),
          TRUE, {}) }

SetUuidChecks(e, m) == { Chk("C13", e.pre = Eids(m) /\ e.post = e.pre, FALSE, {}) }

(* ------------------------------------------------------------------ *)
(* the public header generators of either half: SMBus header with the byte count still zero, transport header *)
GenHdrChecks(e, m) ==
    { IF e.dst < 128 /\ m.addr < 128
      THEN Chk("C04", e.res.kind = "ok" /\ e.smbus = << e.dst * 2, 15, 0, m.addr * 2 + 1 >>, TRUE, {})
      ELSE Skip("C04"),
      Chk("C05", /\ e.res.kind = "ok" /\ Len(e.transport) = 4
                 /\ SubSeq(e.transport, 1, 3) = << 1, e.dst, m.addr >>
                 /\ (IF e.half = "resp" THEN e.transport[4] \div 16 = 12 ELSE e.transport[4] = 200), TRUE, {}),
      Chk("C13", e.pre = Eids(m) /\ e.post = e.pre, FALSE, {}) }

HasCtx(e) == e.op \in {"set_uuid", "set_eid", "enc_req", "enc_resp", "enc_vendor", "enc_gen",
                       "decode", "get_length", "process", "gen_hdr"}

ChecksM(e, m) ==
    CASE e.op = "new"        -> {}
      [] e.op = "set_uuid"   -> SetUuidChecks(e, m)
      [] e.op = "set_eid"    -> SetEidChecks(e, m)
      [] e.op \in {"enc_req", "enc_resp", "enc_vendor", "enc_gen"} -> EncChecks(e, m)
      [] e.op = "decode"     -> DecodeChecks(e, m)
      [] e.op = "process"    -> ProcessChecks(e, m)
      [] e.op = "get_length" -> GetLengthChecks(e, m)
      [] e.op = "gen_hdr"    -> GenHdrChecks(e, m)
      [] e.op = "batch_get_length" -> BatchChecks(e)
      [] e.op \in {"hdr_get", "hdr_set", "hdr_from_buf", "hdr_new"} -> HeaderChecks(e)
      [] e.op = "conv"       -> ConvChecks(e)
Checks(e) == ChecksM(e, IF HasCtx(e) THEN ctxs[e.ctx] ELSE << >>)

VidOf(v) == [format |-> v.format, data |-> v.data, num |-> v.num]

NextCtxs(e) ==
    CASE e.op = "new" ->
           (e.ctx :> NewCtx(e.addr, e.msg_types, [i \in 1..Len(e.vendor_ids) |-> VidOf(e.vendor_ids[i])]))
             @@ ctxs
      [] e.op = "set_uuid" -> [ctxs EXCEPT ![e.ctx].uuid = e.uuid]
      [] HasCtx(e) /\ e.op # "set_uuid" ->
           [ctxs EXCEPT ![e.ctx].eidReq = e.post.eid_req, ![e.ctx].eidResp = e.post.eid_resp]
      [] OTHER -> ctxs

(* ------------------------------------------------------------------ *)
PairSet == UNION {{<< x, d >> : x \in DevProps[d]} : d \in Deviation}

InitStats == [ first |-> [x \in Props |-> 0],      \* first unexplained failing event, 0 = none
               nfail |-> [x \in Props |-> 0],
               nt    |-> [x \in Props |-> 0],
               evals |-> [x \in Props |-> 0],
               known |-> [pr \in PairSet |-> [n |-> 0, first |-> 0]] ]

RECURSIVE MaskFrom(_, _)
MaskFrom(S, i) == IF i > NProps THEN 0 ELSE (IF PropSeq[i] \in S THEN 2^(i - 1) ELSE 0) + MaskFrom(S, i + 1)
Mask(S) == MaskFrom(S, 1)

FlushEvery == 500

Init == /\ l = 1 /\ ctxs = << >> /\ lastEnc = NoEnc /\ lastDec = NoDec
        /\ st = InitStats /\ ntbuf = << >>

Failing(cs) == {c.p : c \in {d \in cs : ~d.ok /\ d.devs = {}}}
Knowns(cs)  == UNION {{<< c.p, d >> : d \in c.devs} : c \in {d \in cs : ~d.ok}}
NTs(cs)     == {c.p : c \in {d \in cs : d.nt}}
Evs(cs)     == {c.p : c \in {d \in cs : ~d.sk}}

Apply(e, failing, knowns, nts, evs, nb) ==
       /\ st' = [ first |-> [x \in Props |-> IF st.first[x] = 0 /\ x \in failing THEN l ELSE st.first[x]],
                  nfail |-> [x \in Props |-> st.nfail[x] + (IF x \in failing THEN 1 ELSE 0)],
                  nt    |-> [x \in Props |-> st.nt[x] + (IF x \in nts THEN 1 ELSE 0)],
                  evals |-> [x \in Props |-> st.evals[x] + (IF x \in evs THEN 1 ELSE 0)],
                  known |-> [pr \in PairSet |->
                               IF pr \in knowns
                               THEN [n |-> st.known[pr].n + 1,
                                     first |-> IF st.known[pr].first = 0 THEN l ELSE st.known[pr].first]
                               ELSE st.known[pr]] ]
       /\ IF Len(nb) >= FlushEvery \/ l = Len(Rec)
          THEN /\ PrintT("NT " \o ToJson([from |-> l + 1 - Len(nb), masks |-> nb]))
               /\ ntbuf' = << >>
          ELSE ntbuf' = nb
       /\ ctxs' = NextCtxs(e)
       /\ lastEnc' = IF e.op \in {"enc_req", "enc_resp", "enc_vendor", "enc_gen"}
                     THEN EncRemember(e, ctxs[e.ctx])
                     ELSE IF e.op \in {"decode", "process", "get_length"} THEN lastEnc ELSE NoEnc
       /\ lastDec' = IF e.op = "decode" THEN [p |-> e.p, res |-> e.res] ELSE NoDec
       /\ l' = l + 1

Apply2(e, cs, nts) == Apply(e, Failing(cs), Knowns(cs), nts, Evs(cs), Append(ntbuf, Mask(nts)))
Apply1(e, cs) == Apply2(e, cs, NTs(cs))
StepOn(e) == Apply1(e, Checks(e))

Step == l <= Len(Rec) /\ StepOn(Rec[l])

Spec == Init /\ [][Step]_vars

KnownList == {[prop |-> pr[1], dev |-> pr[2], n |-> st.known[pr].n, first |-> st.known[pr].first] :
                pr \in {q \in PairSet : st.known[q].n > 0}}

(* printed once, in the state that follows the last event *)
Summary == l = Len(Rec) + 1 =>
             PrintT("SUMMARY " \o ToJson([events |-> Len(Rec), first |-> st.first, nfail |-> st.nfail,
                                          nt |-> st.nt, evals |-> st.evals, known |-> KnownList]))

(* the whole trace was consumed: anything else is a tool error, not a pass *)
Consumed == TLCGet("stats").diameter = Len(Rec) + 1
=============================================================================
