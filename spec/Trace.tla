-------------------------------- MODULE Trace --------------------------------
(***************************************************************************)
(* Trace validation as a total monitor.                                    *)
(*                                                                         *)
(* Rec is a trace recorded by /verif/harness from the real libmctp: one    *)
(* event per API call with all arguments, the full result, the buffers     *)
(* and both EID accessors before and after.  Each step of this spec        *)
(* consumes one event, evaluates every property predicate on it against    *)
(* the specification (Codec, Responder, Layout, Codes), updates the model  *)
(* state (configuration, UUID; the EID follows the observation after it    *)
(* was compared with the value the model derives), and records             *)
(*   - which properties failed on the event and no open deviation explains *)
(*   - which failures are exactly an open known deviation                  *)
(*   - on which events each property's antecedent held (non-trivial)       *)
(* The monitor is deterministic and never gets stuck on a well-formed      *)
(* trace, so the behaviour has exactly Len(Rec)+1 states; the wrapper      *)
(* reads the summary printed in the last state.                            *)
(***************************************************************************)
EXTENDS Integers, Sequences, FiniteSets, TLC, Json, IOUtils, Bytes, Codes, Codec, Responder, Findings

CONSTANT Open                    \* open known deviations (subset of Deviation)

L == INSTANCE Layout

Rec == ndJsonDeserialize(IOEnv.TRACE)

PropSeq == << "C01", "C02", "C03", "C04", "C05", "C06", "C07", "C08", "C09", "C10",
              "C11", "C12", "C13", "C14", "C15", "C16", "C17", "C18", "C19" >>
Props == {PropSeq[i] : i \in 1..19}
PropIdx(x) == CHOOSE i \in 1..19 : PropSeq[i] = x

VARIABLES l,        \* index of the next event
          ctxs,     \* model state: context id -> [addr, mts, vids, eidReq, eidResp, uuid]
          lastEnc,  \* the previous encoder event (for C01 pairs and C16 independence)
          lastDec,  \* the previous decode event (for C09 context independence)
          st,       \* statistics / verdicts
          ntbuf     \* pending per-event non-triviality masks

vars == << l, ctxs, lastEnc, lastDec, st, ntbuf >>

(* one check of one property on one event *)
Chk(x, ok, nt, devs) == [p |-> x, ok |-> ok, nt |-> nt, devs |-> IF ok THEN {} ELSE devs \cap Open]
Skip(x) == [p |-> x, ok |-> TRUE, nt |-> FALSE, devs |-> {}]

NoEnc == [ok |-> FALSE, key |-> << >>, kind |-> "", buf |-> << >>, type |-> 0, lo |-> 0,
          payload |-> << >>, cc |-> 0, fits |-> FALSE]
NoDec == [p |-> << -1 >>, res |-> [kind |-> "none"]]

OkLen(n) == [kind |-> "ok", len |-> n]

(* ------------------------------------------------------------------ *)
(* outcome comparison helpers                                          *)
SameDec(r, x) ==        \* observed decode result r equals the modelled outcome x
    /\ r.kind = x.kind
    /\ (r.kind = "ok"  => r.type = x.type /\ r.lo = x.lo /\ r.hi = x.hi)
    /\ (r.kind = "err" => r.type = x.type /\ r.err = x.err /\ r.cc = x.cc)

SameRes(a, b) ==        \* two observed results agree (decode vs. process)
    /\ a.kind = b.kind
    /\ (a.kind = "ok"  => a.type = b.type /\ a.lo = b.lo /\ a.hi = b.hi)
    /\ (a.kind = "err" => a.type = b.type /\ a.err = b.err /\ a.cc = b.cc)

Eids(m) == [eid_req |-> m.eidReq, eid_resp |-> m.eidResp]

(* ------------------------------------------------------------------ *)
(* encoder events                                                      *)
EncSpec(e, m) ==
    LET a == e.args IN
    CASE e.op = "enc_req"    -> [refused |-> ReqRefused(e.name, a), type |-> MT_CONTROL,
                                 rest |-> ReqRest(e.name, a), lo |-> 11, payload |-> ReqData(e.name, a), cc |-> 0]
      [] e.op = "enc_resp"   -> [refused |-> RespRefused(e.name, a), type |-> MT_CONTROL,
                                 rest |-> RespRest(e.name, a, e.pre.eid_resp), lo |-> 12,
                                 payload |-> RespFields(e.name, a, e.pre.eid_resp), cc |-> a.cc]
      [] e.op = "enc_vendor" -> IF VendorRefused(a)
                                THEN [refused |-> TRUE, type |-> 0, rest |-> << >>, lo |-> 9, payload |-> << >>, cc |-> 0]
                                ELSE [refused |-> FALSE, type |-> VendorType(a), rest |-> VendorRest(a),
                                      lo |-> 9, payload |-> VendorRest(a), cc |-> 0]
      [] e.op = "enc_gen"    -> [refused |-> FALSE, type |-> GenType[e.kind], rest |-> GenRest(a),
                                 lo |-> 9, payload |-> GenRest(a), cc |-> 0]

EncKey(e) == << e.op, e.ctx, IF e.op \in {"enc_req", "enc_resp"} THEN e.name ELSE "",
                IF e.op = "enc_gen" THEN << e.half, e.kind >> ELSE << >>, e.args, e.pre.eid_resp >>

EncChecks(e, m) ==
    LET a     == e.args
        dst   == a.dst
        src   == m.addr
        sp    == EncSpec(e, m)
        total == TotalLen(sp.rest)
        fits  == total <= MaxTotal
        okk   == e.res.kind = "ok"
        n     == e.res.len
        buf   == e.buf
        isResp == e.op = "enc_resp" \/ (e.op = "enc_gen" /\ e.half = "resp" /\ e.kind = "control")
        wr    == WriterAsIs(total, Open)
        wrapExplains == /\ ~sp.refused /\ total >= 256
                        /\ e.res.kind = wr.kind
                        /\ (okk => n = total /\ Len(buf) = n /\ buf[3] = wr.count)
        body  == SubSeq(buf, 10, n - 1)
    IN
    { Chk("C03", okk => (n >= 1 /\ Len(buf) = n /\ PecGood(buf)), okk, {}),
      IF dst < 128 /\ src < 128
      THEN Chk("C04",
               /\ (~sp.refused /\ ~fits) => e.res.kind = "err"
               /\ okk => /\ n >= 4 /\ Len(buf) = n
                         /\ buf[1] = dst * 2 /\ buf[2] = 15 /\ buf[3] = n - 4 /\ buf[4] = src * 2 + 1
                         /\ e.probe = << OkLen(n) >>,
               okk \/ ~fits, IF wrapExplains THEN {"BYTECOUNT_WRAP"} ELSE {})
      ELSE Skip("C04"),
      Chk("C05", okk => /\ n >= 10 /\ Len(buf) = n
                        /\ buf[5] = 1 /\ buf[6] = dst /\ buf[7] = src
                        /\ (IF isResp THEN buf[8] \div 16 = 12 ELSE buf[8] = 200)
                        /\ buf[9] = sp.type,
          okk, {}),
      IF e.op = "enc_req"
      THEN Chk("C06", okk => (n >= 12 /\ Len(buf) = n /\ body = sp.rest), okk,
               IF e.name = "query_hop" /\ okk /\ n >= 12 /\ Len(buf) = n
                  /\ body = [sp.rest EXCEPT ![2] = 14]
               THEN {"QUERYHOP_CODE"} ELSE {})
      ELSE Skip("C06"),
      IF e.op = "enc_resp"
      THEN Chk("C07", okk => /\ n >= 13 /\ Len(buf) = n
                             /\ buf[10] \div 32 = 0 /\ buf[11] = RespCmd[e.name] /\ buf[12] = a.cc
                             /\ (a.cc = 0 => Tail(body) = Tail(sp.rest)),
               okk, {})
      ELSE Skip("C07"),
      IF e.op = "enc_vendor" \/ (e.op = "enc_gen" /\ e.kind # "control")
      THEN Chk("C08", /\ sp.refused => e.res.kind = "err"
                      /\ okk => (~sp.refused /\ n >= 10 /\ Len(buf) = n /\ buf[9] = sp.type /\ body = sp.rest),
               TRUE, {})
      ELSE Skip("C08"),
      Chk("C16",
          /\ sp.refused => (e.res.kind = "err" /\ e.tail_diff = << >>)
          /\ (~sp.refused /\ fits /\ e.buf_len >= total) => okk
          /\ okk => (n <= e.buf_len /\ Len(buf) = n /\ e.tail_diff = << >>)
          /\ (lastEnc.key = EncKey(e)) => (lastEnc.kind = e.res.kind /\ lastEnc.buf = buf),
          TRUE, IF wrapExplains /\ fits THEN {"BYTECOUNT_WRAP"} ELSE {}),
      Chk("C13", e.pre = Eids(m) /\ e.post = e.pre, FALSE, {}) }

EncRemember(e, m) ==
    LET sp == EncSpec(e, m) IN
    [ok |-> e.res.kind = "ok", key |-> EncKey(e), kind |-> e.res.kind, buf |-> e.buf,
     type |-> sp.type, lo |-> sp.lo, payload |-> sp.payload, cc |-> sp.cc,
     fits |-> ~sp.refused /\ TotalLen(sp.rest) <= MaxTotal]

(* ------------------------------------------------------------------ *)
(* C01 on a decode (or process) of exactly the bytes the previous encoder produced *)
PairHolds(p, r) ==
    IF lastEnc.cc = 0
    THEN /\ r.kind = "ok" /\ r.type = lastEnc.type
         /\ r.lo = lastEnc.lo /\ r.hi = Len(p) - 1
         /\ Slice0(p, r.lo, r.hi) = lastEnc.payload
    ELSE r.kind = "err" /\ r.type = MT_CONTROL /\ r.err = "Unsuccessful" /\ r.cc = lastEnc.cc

IsPair(p) == lastEnc.ok /\ lastEnc.fits /\ lastEnc.buf = p

DecDevs(p, r) == LET x == Dec(p, Open) IN IF SameDec(r, x) THEN x.dev ELSE {}

(* ------------------------------------------------------------------ *)
(* decode events                                                       *)
DecodeChecks(e, m) ==
    LET p == e.p
        r == e.res
        panicked == r.kind = "panic"
    IN
    { Chk("C10", ~panicked, TRUE, DecDevs(p, r)),
      Chk("C02", r.kind = "ok" => PecGood(p), Len(p) >= 1 /\ ~PecGood(p), {}),
      IF panicked THEN Skip("C09")
      ELSE Chk("C09", /\ DecodeAllowed(p, r)
                      /\ (lastDec.p = p /\ lastDec.res.kind # "panic") => SameRes(lastDec.res, r),
               Claimed(p), DecDevs(p, r)),
      IF IsPair(p) THEN Chk("C01", PairHolds(p, r), TRUE, DecDevs(p, r)) ELSE Skip("C01"),
      Chk("C13", e.pre = Eids(m) /\ e.post = e.pre, FALSE, {}) }

(* ------------------------------------------------------------------ *)
(* process events                                                      *)
IsAcceptedReq(p) == WellFormed(p) /\ IsCtl(p) /\ Rq(p) = 1

Untouched(e) == e.res.resp_len = -1 /\ e.rbuf = << >> /\ e.rtail_diff = << >>

C12Frame(p, m, R, n, iid) ==
    /\ n >= 13 /\ Len(R) = n
    /\ R[1] = p[7] * 2 /\ R[2] = 15 /\ R[3] = n - 4 /\ R[4] = m.addr * 2 + 1
    /\ R[5] = 1 /\ R[6] = p[7] /\ R[7] = m.addr /\ R[8] \div 16 = 12
    /\ R[9] = 0 /\ R[10] = iid /\ R[11] = Cmd(p)
    /\ PecGood(R)

C12Domain(p, m, e) ==
    /\ IsAcceptedReq(p) /\ Bits(p[10], 6, 5) = 0 /\ Len(p) <= 255
    /\ Answered(p, m)
    /\ (Cmd(p) = 1 /\ p[12] \in {0, 1}) => p[13] \in 1..254
    /\ p[4] \div 2 = p[7] /\ p[7] < 128 /\ m.addr < 128
    /\ e.rbuf_len >= 64

ProcessChecks(e, m) ==
    LET p  == e.p
        r  == e.res
        dc == e.dec
        R  == e.rbuf
        n  == r.resp_len
        x  == Proc(p, m, Open)
        panicked == r.kind = "panic"
        acc  == IsAcceptedReq(p)
        pecok == PecGood(p)
        asIsSame == /\ SameDec(r, x)
                    /\ (x.has => n = Len(x.resp) /\ R = x.resp /\ e.rtail_diff = << >>)
                    /\ (~x.has => Untouched(e))
                    /\ e.post = (IF x.neweid = -1 THEN e.pre ELSE [eid_req |-> x.neweid, eid_resp |-> x.neweid])
        xdevs == IF asIsSame THEN x.dev ELSE {}
        assign == acc /\ Cmd(p) = 1 /\ p[12] \in {0, 1}
    IN
    { Chk("C10", dc.kind # "panic" /\ ~panicked, TRUE,
          IF panicked THEN xdevs ELSE DecDevs(p, dc)),
      Chk("C02", /\ r.kind = "ok" => pecok
                 /\ ~pecok => (Untouched(e) /\ e.post = e.pre),
          Len(p) >= 1 /\ ~pecok, {}),
      IF panicked \/ dc.kind = "panic" THEN Skip("C11")
      ELSE Chk("C11", /\ SameRes(dc, r)
                      /\ n >= 0 => /\ r.kind = "ok" /\ r.type = MT_CONTROL /\ Len(p) >= 10 /\ Rq(p) = 1
                                   /\ n <= e.rbuf_len /\ Len(R) = n /\ e.rtail_diff = << >>
                      /\ n < 0 => Untouched(e),
               TRUE, xdevs),
      IF ~panicked /\ C12Domain(p, m, e)
      THEN Chk("C12", r.kind = "ok" /\ C12Frame(p, m, R, n, Iid(p)), TRUE,
               IF Iid(p) # 0 /\ r.kind = "ok" /\ C12Frame(p, m, R, n, 0) THEN {"IID_ZERO"} ELSE {})
      ELSE Skip("C12"),
      Chk("C13",
          /\ e.pre = Eids(m)
          /\ IF assign /\ ~panicked
             THEN IF p[13] \in 1..254
                  THEN /\ e.post = [eid_req |-> p[13], eid_resp |-> p[13]]
                       /\ r.kind = "ok" /\ n >= 16 /\ Len(R) = n
                       /\ R[12] = 0 /\ Bits(R[13], 5, 4) = 0 /\ R[14] = p[13]
                  ELSE e.post \in {e.pre, [eid_req |-> p[13], eid_resp |-> p[13]]}
             ELSE e.post = e.pre
          /\ (acc /\ ~panicked /\ Cmd(p) = 1 /\ p[12] = 3) => (r.kind = "ok" /\ n >= 13 /\ Len(R) = n /\ R[12] = CC_INVALID_DATA)
          /\ (acc /\ ~panicked /\ Cmd(p) = 2 /\ Len(p) <= 255) => (r.kind = "ok" /\ n >= 14 /\ Len(R) = n /\ R[12] = 0 /\ R[13] = e.pre.eid_resp),
          Len(p) >= 11 /\ p[11] \in {1, 2}, {}),
      IF ~panicked /\ acc /\ Cmd(p) = 6 /\ p[12] < Len(m.vids) /\ Len(p) <= 255
      THEN Chk("C14", r.kind = "ok" /\ n >= 13 /\ Len(R) = n /\ SubSeq(R, 12, n - 1) = AnswerBody(p, m, 0), TRUE, {})
      ELSE Skip("C14"),
      IF ~panicked /\ acc /\ Cmd(p) \in 3..5 /\ Len(p) <= 255
      THEN Chk("C15", r.kind = "ok" /\ n >= 13 /\ Len(R) = n /\ SubSeq(R, 12, n - 1) = AnswerBody(p, m, 0), TRUE, {})
      ELSE Skip("C15"),
      IF IsPair(p) /\ ~panicked THEN Chk("C01", PairHolds(p, r), TRUE, xdevs \cup DecDevs(p, r)) ELSE Skip("C01") }

(* ------------------------------------------------------------------ *)
(* length probe                                                        *)
LenMatches(r, p) ==
    LET g == GetLengthOf(p) IN
    IF g.kind = "ok" THEN r.kind = "ok" /\ r.len = g.len
                     ELSE r.kind = "err" /\ r.type = MT_INVALID

GetLengthChecks(e, m) ==
    LET p == e.p   r == e.res IN
    { Chk("C10", r.kind # "panic", TRUE, IF Len(p) < 3 THEN {"SHORT_PROBE"} ELSE {}),
      Chk("C17", IF Len(p) >= 3 THEN LenMatches(r, p) ELSE r.kind = "err", TRUE,
          IF Len(p) < 3 /\ r.kind = "panic" THEN {"SHORT_PROBE"} ELSE {}),
      Chk("C13", e.pre = Eids(m) /\ e.post = e.pre, FALSE, {}) }

BatchChecks(e) ==
    { Chk("C17", Len(e.results) = 1 /\ LenMatches(e.results[1], << 0, e.b1, e.b2 >>), TRUE, {}) }

(* ------------------------------------------------------------------ *)
(* header views and conversions                                        *)
NarrowViews == {"smbus", "transport", "body", "control", "routing"}

HdrNewRaw(v, a) ==
    CASE v = "transport" -> << a.version % 16, 0, 0, 0 >>
      [] v = "smbus"     -> << 0, 0, 0, 0 >>
      [] v = "body"      -> << a.msg_type % 128 >>
      [] v = "control"   -> << (a.rq % 2) * 128 + (a.d % 2) * 64 + (a.instance_id % 32),
                               CmdValue(CmdOfByte(a.command_code)) >>
      [] v = "routing"   -> << a.entry_type % 16, a.eid_range_size, a.first_eid, a.physical_address >>
      [] v \in {"pci", "iana"} -> a.vendor_id

HeaderChecks(e) ==
    LET v == e.view
        good == e.res.kind = "ok"
    IN
    { Chk("C18",
        good /\
        CASE e.op = "hdr_get" ->
               IF v \in NarrowViews THEN e.fields = L!GetAll(v, e.raw) ELSE e.wide = e.raw
          [] e.op = "hdr_set" ->
               IF v \in NarrowViews
               THEN LET after == L!Set(v, e.raw, e.field, e.value) IN
                    e.raw_after = after /\ e.fields = L!GetAll(v, after)
               ELSE e.raw_after = e.value /\ e.wide = e.value
          [] e.op = "hdr_from_buf" ->
               LET valid == IF v = "transport" THEN L!TransportValid(e.raw, e.version)
                                               ELSE L!BodyHdrValid(e.raw)
               IN  (e.ok = 1) = valid /\ (valid => e.raw_out = e.raw)
          [] e.op = "hdr_new" -> e.raw_out = HdrNewRaw(v, e.args),
        TRUE, {}) }

ConvChecks(e) ==
    LET b == e.byte IN
    { Chk("C19",
        e.res.kind = "ok" /\
        CASE e.enum = "command"    -> e.variant = CmdOfByte(b) /\ e.variant_value = CmdValue(e.variant)
                                      /\ (b \in 0..20 => e.variant_value = b)
          [] e.enum = "msgtype"    -> e.variant = TypeOfByte(b) /\ e.variant_value = MsgTypeValue(e.variant)
                                      /\ (b \in SupportedTypes => e.variant_value = b)
          [] e.enum = "completion" -> b \in 0..5 => (e.variant = CcOfByte(b) /\ e.variant_value = b),
        TRUE, {}) }

(* ------------------------------------------------------------------ *)
(* state accessors only: both EID cells                                *)
SetEidChecks(e, m) ==
    { Chk("C13", /\ e.pre = Eids(m)
                 /\ e.post = (IF e.half = "req" THEN [e.pre EXCEPT !.eid_req = e.eid]
                                                ELSE [e.pre EXCEPT !.eid_resp = e.eid]),
          TRUE, {}) }

SetUuidChecks(e, m) == { Chk("C13", e.pre = Eids(m) /\ e.post = e.pre, FALSE, {}) }

(* ------------------------------------------------------------------ *)
HasCtx(e) == e.op \in {"set_uuid", "set_eid", "enc_req", "enc_resp", "enc_vendor", "enc_gen",
                       "decode", "get_length", "process"}

Checks(e) ==
    LET m == IF HasCtx(e) THEN ctxs[e.ctx] ELSE << >> IN
    CASE e.op = "new"        -> {}
      [] e.op = "set_uuid"   -> SetUuidChecks(e, m)
      [] e.op = "set_eid"    -> SetEidChecks(e, m)
      [] e.op \in {"enc_req", "enc_resp", "enc_vendor", "enc_gen"} -> EncChecks(e, m)
      [] e.op = "decode"     -> DecodeChecks(e, m)
      [] e.op = "process"    -> ProcessChecks(e, m)
      [] e.op = "get_length" -> GetLengthChecks(e, m)
      [] e.op = "batch_get_length" -> BatchChecks(e)
      [] e.op \in {"hdr_get", "hdr_set", "hdr_from_buf", "hdr_new"} -> HeaderChecks(e)
      [] e.op = "conv"       -> ConvChecks(e)

VidOf(v) == [format |-> v.format, data |-> v.data, num |-> v.num]

NextCtxs(e) ==
    CASE e.op = "new" ->
           (e.ctx :> NewCtx(e.addr, e.msg_types, [i \in 1..Len(e.vendor_ids) |-> VidOf(e.vendor_ids[i])]))
             @@ ctxs
      [] e.op = "set_uuid" -> [ctxs EXCEPT ![e.ctx].uuid = e.uuid]
      [] HasCtx(e) /\ e.op # "set_uuid" ->
           [ctxs EXCEPT ![e.ctx].eidReq = e.post.eid_req, ![e.ctx].eidResp = e.post.eid_resp]
      [] OTHER -> ctxs

(* ------------------------------------------------------------------ *)
PairSet == UNION {{<< x, d >> : x \in DevProps[d]} : d \in Deviation}

InitStats == [ first |-> [x \in Props |-> 0],      \* first unexplained failing event, 0 = none
               nfail |-> [x \in Props |-> 0],
               nt    |-> [x \in Props |-> 0],
               evals |-> [x \in Props |-> 0],
               known |-> [pr \in PairSet |-> [n |-> 0, first |-> 0]] ]

Mask(S) == LET RECURSIVE Sum(_)
               Sum(T) == IF T = {} THEN 0 ELSE LET x == CHOOSE y \in T : TRUE IN 2^(PropIdx(x) - 1) + Sum(T \ {x})
           IN Sum(S)

FlushEvery == 500

Init == /\ l = 1 /\ ctxs = << >> /\ lastEnc = NoEnc /\ lastDec = NoDec
        /\ st = InitStats /\ ntbuf = << >>

Step ==
    /\ l <= Len(Rec)
    /\ LET e  == Rec[l]
           cs == Checks(e)
           failing == {c.p : c \in {d \in cs : ~d.ok /\ d.devs = {}}}
           knowns  == UNION {{<< c.p, d >> : d \in c.devs} : c \in {d \in cs : ~d.ok}}
           nts     == {c.p : c \in {d \in cs : d.nt}}
           evs     == {c.p : c \in cs}
           nb      == Append(ntbuf, Mask(nts))
           last    == l = Len(Rec)
       IN
       /\ st' = [ first |-> [x \in Props |-> IF st.first[x] = 0 /\ x \in failing THEN l ELSE st.first[x]],
                  nfail |-> [x \in Props |-> st.nfail[x] + (IF x \in failing THEN 1 ELSE 0)],
                  nt    |-> [x \in Props |-> st.nt[x] + (IF x \in nts THEN 1 ELSE 0)],
                  evals |-> [x \in Props |-> st.evals[x] + (IF x \in evs THEN 1 ELSE 0)],
                  known |-> [pr \in PairSet |->
                               IF pr \in knowns
                               THEN [n |-> st.known[pr].n + 1,
                                     first |-> IF st.known[pr].first = 0 THEN l ELSE st.known[pr].first]
                               ELSE st.known[pr]] ]
       /\ IF Len(nb) >= FlushEvery \/ last
          THEN /\ PrintT("NT " \o ToJson([from |-> l + 1 - Len(nb), masks |-> nb]))
               /\ ntbuf' = << >>
          ELSE ntbuf' = nb
       /\ ctxs' = NextCtxs(e)
       /\ lastEnc' = IF e.op \in {"enc_req", "enc_resp", "enc_vendor", "enc_gen"}
                     THEN EncRemember(e, ctxs[e.ctx])
                     ELSE IF e.op \in {"decode", "process", "get_length"} THEN lastEnc ELSE NoEnc
       /\ lastDec' = IF e.op = "decode" THEN [p |-> e.p, res |-> e.res] ELSE NoDec
       /\ l' = l + 1

Spec == Init /\ [][Step]_vars

KnownList == {[prop |-> pr[1], dev |-> pr[2], n |-> st.known[pr].n, first |-> st.known[pr].first] :
                pr \in {q \in PairSet : st.known[q].n > 0}}

(* printed once, in the state that follows the last event *)
Summary == l = Len(Rec) + 1 =>
             PrintT("SUMMARY " \o ToJson([events |-> Len(Rec), first |-> st.first, nfail |-> st.nfail,
                                          nt |-> st.nt, evals |-> st.evals, known |-> KnownList]))

(* the whole trace was consumed: anything else is a tool error, not a pass *)
Consumed == TLCGet("stats").diameter = Len(Rec) + 1
=============================================================================
