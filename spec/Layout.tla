------------------------------- MODULE Layout -------------------------------
(***************************************************************************)
(* Declarative bit layouts of the seven public header views, transcribed   *)
(* from the DSP0236 / DSP0237 wire layout the library documents.  A field  *)
(* is [byte |-> 1-based byte index, hi, lo |-> bit positions, 7 = MSB].    *)
(* The two vendor-id fields are whole big-endian byte strings and are      *)
(* described by [byte, n] (n bytes starting at byte).                      *)
(***************************************************************************)
EXTENDS Naturals, Sequences, Bytes, Codes, TLC

F(b, h, l) == [byte |-> b, hi |-> h, lo |-> l]

View == [
  smbus |-> [ dest_read_write   |-> F(1, 0, 0), dest_slave_addr   |-> F(1, 7, 1),
              command_code      |-> F(2, 7, 0), byte_count        |-> F(3, 7, 0),
              source_read_write |-> F(4, 0, 0), source_slave_addr |-> F(4, 7, 1) ],
  transport |-> [ hdr_version |-> F(1, 3, 0), dest_endpoint_id |-> F(2, 7, 0),
                  source_endpoint_id |-> F(3, 7, 0), som |-> F(4, 7, 7), eom |-> F(4, 6, 6),
                  pkt_seq |-> F(4, 5, 4), to |-> F(4, 3, 3), msg_tag |-> F(4, 2, 0) ],
  body |-> [ msg_type |-> F(1, 6, 0) ],
  control |-> [ rq |-> F(1, 7, 7), d |-> F(1, 6, 6), instance_id |-> F(1, 4, 0),
                command_code |-> F(2, 7, 0) ],
  routing |-> [ entry_type |-> F(1, 3, 0), eid_range_size |-> F(2, 7, 0),
                first_eid |-> F(3, 7, 0), physical_address |-> F(4, 7, 0) ]
]

ViewLen == [smbus |-> 4, transport |-> 4, body |-> 1, control |-> 2, routing |-> 4,
            pci |-> 2, iana |-> 4]

(* reserved / non-public bits of each view, as [byte, hi, lo] *)
Reserved == [ smbus |-> {}, transport |-> {F(1, 7, 4)}, body |-> {F(1, 7, 7)},
              control |-> {F(1, 5, 5)}, routing |-> {F(1, 7, 4)} ]

Fields(v) == DOMAIN View[v]

Get(v, raw, f) == LET d == View[v][f] IN Bits(raw[d.byte], d.hi, d.lo)

Set(v, raw, f, val) ==
    LET d == View[v][f] IN [raw EXCEPT ![d.byte] = WithBits(raw[d.byte], d.hi, d.lo, val)]

Width(v, f) == LET d == View[v][f] IN d.hi - d.lo + 1

(* every public field of a view, read at once *)
GetAll(v, raw) == [f \in Fields(v) |-> Get(v, raw, f)]

(* validators *)
TransportValid(raw, ver) == Bits(raw[1], 7, 4) = 0 /\ Bits(raw[1], 3, 0) = ver
BodyHdrValid(raw)        == Bits(raw[1], 7, 7) = 0 /\ Bits(raw[1], 6, 0) \in SupportedTypes

(* every bit of a view belongs to at most one field *)
BitsOf(d) == {<<d.byte, k>> : k \in d.lo..d.hi}
Disjoint(v) ==
    /\ \A f, g \in Fields(v) : f # g => BitsOf(View[v][f]) \cap BitsOf(View[v][g]) = {}
    /\ \A f \in Fields(v) : \A r \in Reserved[v] : BitsOf(View[v][f]) \cap BitsOf(r) = {}
Covers(v) ==
    UNION ({BitsOf(View[v][f]) : f \in Fields(v)} \cup {BitsOf(r) : r \in Reserved[v]})
      = {<<b, k>> : b \in 1..ViewLen[v], k \in 0..7}
=============================================================================
