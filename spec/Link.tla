-------------------------------- MODULE Link --------------------------------
(***************************************************************************)
(* What the library is for: a bus owner brings up an endpoint over a       *)
(* faulty SMBus segment.  Both sides are modelled with the operators the   *)
(* trace monitor uses as its oracle (Codec, Responder), on real byte       *)
(* strings, so PEC, framing, correlation and the EID life cycle are        *)
(* exercised together.                                                     *)
(*                                                                         *)
(*   BusOwner  runs a script (constant Script, e.g. MC_Link!ScriptAll):    *)
(*             Set EID -> Get EID -> Get UUID -> Get Version -> Get        *)
(*             Message Types -> a command the endpoint does not implement  *)
(*             (answered with ErrorUnsupportedCmd) -> enumerate the vendor *)
(*             sets by following the selectors; a fresh instance id per request, bounded retry   *)
(*             on time-out; it accepts a response only if its own decoder  *)
(*             accepts it and source, command and instance id match the    *)
(*             outstanding request.                                        *)
(*   Endpoint  receives the way a driver uses the API: length probe on the *)
(*             first three bytes, read that many bytes, process_packet,    *)
(*             transmit the response if there is one.                      *)
(*   Wire      may drop, truncate, corrupt (one burst of at most 8 bits)   *)
(*             or duplicate a packet in flight, at most MaxFaults times.   *)
(*                                                                         *)
(* O is the set of open deviations ({} = ideal specification).             *)
(***************************************************************************)
EXTENDS Integers, Sequences, FiniteSets, TLC, Bitwise, Bytes, Codes, Codec, Responder

CONSTANTS EpAddr, BoAddr, NewEid, NewEid2, Mts, Vids, Uuid, MaxFaults, MaxTries, Bursts, FaultKinds, Script, O

ScriptLen == Len(Script)

(* request the bus owner sends for script step k, with instance id i and vendor selector s *)
ReqFor(name, i, s) ==
    Frame(EpAddr, BoAddr, MT_CONTROL,
          << 128 + i, CASE name \in {"set", "set2"} -> 1 [] name = "geteid" -> 2 [] name = "uuid" -> 3
                        [] name = "version" -> 4
                        [] name = "types" -> 5 [] name = "vendor" -> 6 [] name = "unsupp" -> 7 >>
          \o (CASE name = "set" -> << 0, NewEid >> [] name = "set2" -> << 1, NewEid2 >>     \* set2: Force a second EID
                 [] name = "vendor" -> << s >> [] name = "version" -> << 255 >>       \* version of the base specification
                 [] name = "unsupp" -> << 9 >>                                          \* Resolve Endpoint ID: not implemented
                 [] OTHER -> << >>))

(* a burst of at most 8 bits: XOR pattern pat (a byte) into byte k, or split over bytes k, k+1 by shift sh *)
Corrupted(p, k, pat, sh) ==
    [i \in 1..Len(p) |-> IF i = k THEN p[i] ^^ (pat \div (2^sh))
                          ELSE IF i = k + 1 /\ sh > 0 THEN p[i] ^^ ((pat * (2^(8 - sh))) % 256)
                          ELSE p[i]]

(* --algorithm Link {
  variables
    m = [NewCtx(EpAddr, Mts, Vids) EXCEPT !.uuid = Uuid],   \* the endpoint's context (UUID installed at start-up)
    toEp = << >>,            \* packet in flight towards the endpoint (<< >> = none)
    toBo = << >>,            \* packet in flight towards the bus owner
    dup = << >>,             \* a duplicated request waiting to be delivered after the original
    faults = 0,
    faulted = FALSE,         \* ghost: the packet now in toEp was altered by the wire
    rx = << >>,              \* bytes the endpoint's driver has taken off the bus
    rxFaulted = FALSE,       \* ghost: ... and whether the wire had altered them
    \* bus owner
    pc_step = 1, iid = 0, tries = 0, sel = 0,
    outstanding = << >>,     \* the request awaiting an answer
    seen = << >>,            \* vendor sets collected so far
    learned = [eid |-> -1, uuid |-> << >>, types |-> << -1 >>, version |-> << >>, unsupp |-> -1],
    done = FALSE, gaveUp = FALSE,
    \* ghosts for the properties
    badAccept = FALSE,       \* the endpoint accepted or answered a packet the wire had altered
    misMatch = FALSE,        \* the bus owner accepted a response that does not answer its outstanding request
    framingErr = FALSE;      \* the probe did not recover the packet boundary of an unaltered packet

  macro Send(name) {
    outstanding := ReqFor(name, iid, sel);
    toEp := outstanding;
    faulted := FALSE;
  }

  fair process (BusOwner = "bo")
  {
  bo: while (~done /\ ~gaveUp) {
        either {
          \* transmit the request of the current step (a duplicate of an earlier request may still
          \* be wandering about: it is delivered late, after this one)
          await outstanding = << >> /\ toEp = << >> /\ toBo = << >> /\ rx = << >>;
          Send(Script[pc_step]);
          tries := 1;
        } or {
          \* a response arrived
          await toBo # << >>;
          with (r = toBo, d = Dec(toBo, {})) {
            toBo := << >>;
            if (outstanding # << >> /\ Len(r) >= 13
                /\ (d.kind = "ok" \/ (d.kind = "err" /\ d.err = "Unsuccessful"))
                /\ r[7] = EpAddr /\ r[6] = BoAddr
                /\ Rq(r) = 0 /\ Cmd(r) = Cmd(outstanding) /\ Iid(r) = Iid(outstanding)) {
              \* accepted: it must really be the answer to the outstanding request
              if (d.kind = "ok") {
                if (Script[pc_step] \in {"set", "set2"}) { learned.eid := r[14]; }
                else if (Script[pc_step] = "geteid") { misMatch := misMatch \/ (r[13] # learned.eid /\ learned.eid # -1); }
                else if (Script[pc_step] = "uuid")   { learned.uuid := SubSeq(r, 13, Len(r) - 1); }
                else if (Script[pc_step] = "types")  { learned.types := SubSeq(r, 13, Len(r) - 1); }
                else if (Script[pc_step] = "version") { learned.version := SubSeq(r, 13, Len(r) - 1); }
                else if (Script[pc_step] = "vendor") { seen := Append(seen, SubSeq(r, 14, Len(r) - 1)); };
              } else if (Script[pc_step] = "unsupp") {
                \* an error completion code is an answer too: the bus owner notes it and moves on
                learned.unsupp := d.cc;
              };
              if (Script[pc_step] = "vendor" /\ d.kind = "ok" /\ r[13] # 255) {
                sel := r[13];
              } else if (pc_step = ScriptLen) {
                done := TRUE;
              } else {
                pc_step := pc_step + 1;
              };
              outstanding := << >>;
              iid := (iid + 1) % 32;
              tries := 0;
            }
            \* otherwise: not for us / stale / malformed - ignored
          }
        } or {
          \* time-out: nothing in flight any more, resend (bounded)
          await outstanding # << >> /\ toEp = << >> /\ toBo = << >> /\ dup = << >> /\ rx = << >>;
          if (tries < MaxTries) { toEp := outstanding; faulted := FALSE; tries := tries + 1; }
          else { gaveUp := TRUE; }
        }
      }
  }

  fair process (Endpoint = "ep")
    variables want = 0;
  {
  ep: while (TRUE) {
        await toEp # << >> \/ dup # << >>;
        \* the bytes on the bus
        if (toEp # << >>) { rx := toEp; rxFaulted := faulted; toEp := << >>; faulted := FALSE; }
        else { rx := dup; rxFaulted := FALSE; dup := << >>; };
  probe:
        \* length probe on the first three bytes, then read that many bytes
        if (Len(rx) < 3 \/ GetLengthOf(rx).kind # "ok") { rx := << >>; }
        else {
          want := GetLengthOf(SubSeq(rx, 1, 3)).len;
          framingErr := framingErr \/ (~rxFaulted /\ want # Len(rx));
          rx := SubSeq(rx, 1, Min(want, Len(rx)));
        };
  proc:
        await toBo = << >>;
        if (rx # << >>) {
          with (x = ProcE(rx, m, O)) {
            badAccept := badAccept \/ (rxFaulted /\ (x.kind = "ok" \/ x.has \/ x.neweid # -1));
            if (x.neweid # -1) { m := [m EXCEPT !.eidReq = x.neweid, !.eidResp = x.neweid]; };
            if (x.has) { toBo := x.resp; };
          };
          rx := << >>;
        }
      }
  }

  process (Wire = "wire")
  {
  w:  while (TRUE) {
        await faults < MaxFaults /\ toEp # << >>;
        faults := faults + 1;
        either { await "drop" \in FaultKinds; toEp := << >>; faulted := FALSE; }      \* drop
        \* at most one alteration per packet: C02 speaks of a corruption confined to 8 consecutive bits
        or { await ~faulted /\ "trunc" \in FaultKinds;
             with (k \in 1..(Len(toEp) - 1)) { toEp := SubSeq(toEp, 1, k); faulted := TRUE; } }   \* truncate
        or { await ~faulted /\ "burst" \in FaultKinds;
             with (k \in 1..Len(toEp), b \in Bursts) {
               toEp := Corrupted(toEp, k, b[1], b[2]); faulted := TRUE; } }           \* burst of <= 8 bits
        or { await ~faulted /\ "dup" \in FaultKinds; dup := toEp; }                                         \* duplicate
      }
  }
} *)
\* BEGIN TRANSLATION
VARIABLES pc, m, toEp, toBo, dup, faults, faulted, rx, rxFaulted, pc_step, 
          iid, tries, sel, outstanding, seen, learned, done, gaveUp, 
          badAccept, misMatch, framingErr, want

vars == << pc, m, toEp, toBo, dup, faults, faulted, rx, rxFaulted, pc_step, 
           iid, tries, sel, outstanding, seen, learned, done, gaveUp, 
           badAccept, misMatch, framingErr, want >>

ProcSet == {"bo"} \cup {"ep"} \cup {"wire"}

Init == (* Global variables *)
        /\ m = [NewCtx(EpAddr, Mts, Vids) EXCEPT !.uuid = Uuid]
        /\ toEp = << >>
        /\ toBo = << >>
        /\ dup = << >>
        /\ faults = 0
        /\ faulted = FALSE
        /\ rx = << >>
        /\ rxFaulted = FALSE
        /\ pc_step = 1
        /\ iid = 0
        /\ tries = 0
        /\ sel = 0
        /\ outstanding = << >>
        /\ seen = << >>
        /\ learned = [eid |-> -1, uuid |-> << >>, types |-> << -1 >>, version |-> << >>, unsupp |-> -1]
        /\ done = FALSE
        /\ gaveUp = FALSE
        /\ badAccept = FALSE
        /\ misMatch = FALSE
        /\ framingErr = FALSE
        (* Process Endpoint *)
        /\ want = 0
        /\ pc = [self \in ProcSet |-> CASE self = "bo" -> "bo"
                                        [] self = "ep" -> "ep"
                                        [] self = "wire" -> "w"]

bo == /\ pc["bo"] = "bo"
      /\ IF ~done /\ ~gaveUp
            THEN /\ \/ /\ outstanding = << >> /\ toEp = << >> /\ toBo = << >> /\ rx = << >>
                       /\ outstanding' = ReqFor((Script[pc_step]), iid, sel)
                       /\ toEp' = outstanding'
                       /\ faulted' = FALSE
                       /\ tries' = 1
                       /\ UNCHANGED <<toBo, pc_step, iid, sel, seen, learned, done, gaveUp, misMatch>>
                    \/ /\ toBo # << >>
                       /\ LET r == toBo IN
                            LET d == Dec(toBo, {}) IN
                              /\ toBo' = << >>
                              /\ IF outstanding # << >> /\ Len(r) >= 13
                                    /\ (d.kind = "ok" \/ (d.kind = "err" /\ d.err = "Unsuccessful"))
                                    /\ r[7] = EpAddr /\ r[6] = BoAddr
                                    /\ Rq(r) = 0 /\ Cmd(r) = Cmd(outstanding) /\ Iid(r) = Iid(outstanding)
                                    THEN /\ IF d.kind = "ok"
                                               THEN /\ IF Script[pc_step] \in {"set", "set2"}
                                                          THEN /\ learned' = [learned EXCEPT !.eid = r[14]]
                                                               /\ UNCHANGED << seen, 
                                                                               misMatch >>
                                                          ELSE /\ IF Script[pc_step] = "geteid"
                                                                     THEN /\ misMatch' = (misMatch \/ (r[13] # learned.eid /\ learned.eid # -1))
                                                                          /\ UNCHANGED << seen, 
                                                                                          learned >>
                                                                     ELSE /\ IF Script[pc_step] = "uuid"
                                                                                THEN /\ learned' = [learned EXCEPT !.uuid = SubSeq(r, 13, Len(r) - 1)]
                                                                                     /\ seen' = seen
                                                                                ELSE /\ IF Script[pc_step] = "types"
                                                                                           THEN /\ learned' = [learned EXCEPT !.types = SubSeq(r, 13, Len(r) - 1)]
                                                                                                /\ seen' = seen
                                                                                           ELSE /\ IF Script[pc_step] = "version"
                                                                                                      THEN /\ learned' = [learned EXCEPT !.version = SubSeq(r, 13, Len(r) - 1)]
                                                                                                           /\ seen' = seen
                                                                                                      ELSE /\ IF Script[pc_step] = "vendor"
                                                                                                                 THEN /\ seen' = Append(seen, SubSeq(r, 14, Len(r) - 1))
                                                                                                                 ELSE /\ TRUE
                                                                                                                      /\ seen' = seen
                                                                                                           /\ UNCHANGED learned
                                                                          /\ UNCHANGED misMatch
                                               ELSE /\ IF Script[pc_step] = "unsupp"
                                                          THEN /\ learned' = [learned EXCEPT !.unsupp = d.cc]
                                                          ELSE /\ TRUE
                                                               /\ UNCHANGED learned
                                                    /\ UNCHANGED << seen, 
                                                                    misMatch >>
                                         /\ IF Script[pc_step] = "vendor" /\ d.kind = "ok" /\ r[13] # 255
                                               THEN /\ sel' = r[13]
                                                    /\ UNCHANGED << pc_step, 
                                                                    done >>
                                               ELSE /\ IF pc_step = ScriptLen
                                                          THEN /\ done' = TRUE
                                                               /\ UNCHANGED pc_step
                                                          ELSE /\ pc_step' = pc_step + 1
                                                               /\ done' = done
                                                    /\ sel' = sel
                                         /\ outstanding' = << >>
                                         /\ iid' = (iid + 1) % 32
                                         /\ tries' = 0
                                    ELSE /\ TRUE
                                         /\ UNCHANGED << pc_step, iid, tries, 
                                                         sel, outstanding, 
                                                         seen, learned, done, 
                                                         misMatch >>
                       /\ UNCHANGED <<toEp, faulted, gaveUp>>
                    \/ /\ outstanding # << >> /\ toEp = << >> /\ toBo = << >> /\ dup = << >> /\ rx = << >>
                       /\ IF tries < MaxTries
                             THEN /\ toEp' = outstanding
                                  /\ faulted' = FALSE
                                  /\ tries' = tries + 1
                                  /\ UNCHANGED gaveUp
                             ELSE /\ gaveUp' = TRUE
                                  /\ UNCHANGED << toEp, faulted, tries >>
                       /\ UNCHANGED <<toBo, pc_step, iid, sel, outstanding, seen, learned, done, misMatch>>
                 /\ pc' = [pc EXCEPT !["bo"] = "bo"]
            ELSE /\ pc' = [pc EXCEPT !["bo"] = "Done"]
                 /\ UNCHANGED << toEp, toBo, faulted, pc_step, iid, tries, sel, 
                                 outstanding, seen, learned, done, gaveUp, 
                                 misMatch >>
      /\ UNCHANGED << m, dup, faults, rx, rxFaulted, badAccept, framingErr, 
                      want >>

BusOwner == bo

ep == /\ pc["ep"] = "ep"
      /\ toEp # << >> \/ dup # << >>
      /\ IF toEp # << >>
            THEN /\ rx' = toEp
                 /\ rxFaulted' = faulted
                 /\ toEp' = << >>
                 /\ faulted' = FALSE
                 /\ dup' = dup
            ELSE /\ rx' = dup
                 /\ rxFaulted' = FALSE
                 /\ dup' = << >>
                 /\ UNCHANGED << toEp, faulted >>
      /\ pc' = [pc EXCEPT !["ep"] = "probe"]
      /\ UNCHANGED << m, toBo, faults, pc_step, iid, tries, sel, outstanding, 
                      seen, learned, done, gaveUp, badAccept, misMatch, 
                      framingErr, want >>

probe == /\ pc["ep"] = "probe"
         /\ IF Len(rx) < 3 \/ GetLengthOf(rx).kind # "ok"
               THEN /\ rx' = << >>
                    /\ UNCHANGED << framingErr, want >>
               ELSE /\ want' = GetLengthOf(SubSeq(rx, 1, 3)).len
                    /\ framingErr' = (framingErr \/ (~rxFaulted /\ want' # Len(rx)))
                    /\ rx' = SubSeq(rx, 1, Min(want', Len(rx)))
         /\ pc' = [pc EXCEPT !["ep"] = "proc"]
         /\ UNCHANGED << m, toEp, toBo, dup, faults, faulted, rxFaulted, 
                         pc_step, iid, tries, sel, outstanding, seen, learned, 
                         done, gaveUp, badAccept, misMatch >>

proc == /\ pc["ep"] = "proc"
        /\ toBo = << >>
        /\ IF rx # << >>
              THEN /\ LET x == ProcE(rx, m, O) IN
                        /\ badAccept' = (badAccept \/ (rxFaulted /\ (x.kind = "ok" \/ x.has \/ x.neweid # -1)))
                        /\ IF x.neweid # -1
                              THEN /\ m' = [m EXCEPT !.eidReq = x.neweid, !.eidResp = x.neweid]
                              ELSE /\ TRUE
                                   /\ m' = m
                        /\ IF x.has
                              THEN /\ toBo' = x.resp
                              ELSE /\ TRUE
                                   /\ toBo' = toBo
                   /\ rx' = << >>
              ELSE /\ TRUE
                   /\ UNCHANGED << m, toBo, rx, badAccept >>
        /\ pc' = [pc EXCEPT !["ep"] = "ep"]
        /\ UNCHANGED << toEp, dup, faults, faulted, rxFaulted, pc_step, iid, 
                        tries, sel, outstanding, seen, learned, done, gaveUp, 
                        misMatch, framingErr, want >>

Endpoint == ep \/ probe \/ proc

w == /\ pc["wire"] = "w"
     /\ faults < MaxFaults /\ toEp # << >>
     /\ faults' = faults + 1
     /\ \/ /\ "drop" \in FaultKinds
           /\ toEp' = << >>
           /\ faulted' = FALSE
           /\ dup' = dup
        \/ /\ ~faulted /\ "trunc" \in FaultKinds
           /\ \E k \in 1..(Len(toEp) - 1):
                /\ toEp' = SubSeq(toEp, 1, k)
                /\ faulted' = TRUE
           /\ dup' = dup
        \/ /\ ~faulted /\ "burst" \in FaultKinds
           /\ \E k \in 1..Len(toEp):
                \E b \in Bursts:
                  /\ toEp' = Corrupted(toEp, k, b[1], b[2])
                  /\ faulted' = TRUE
           /\ dup' = dup
        \/ /\ ~faulted /\ "dup" \in FaultKinds
           /\ dup' = toEp
           /\ UNCHANGED <<toEp, faulted>>
     /\ pc' = [pc EXCEPT !["wire"] = "w"]
     /\ UNCHANGED << m, toBo, rx, rxFaulted, pc_step, iid, tries, sel, 
                     outstanding, seen, learned, done, gaveUp, badAccept, 
                     misMatch, framingErr, want >>

Wire == w

Next == BusOwner \/ Endpoint \/ Wire

Spec == /\ Init /\ [][Next]_vars
        /\ WF_vars(BusOwner)
        /\ WF_vars(Endpoint)

\* END TRANSLATION

(* ------------------------------ properties ------------------------------ *)
(* C02: nothing the wire altered is ever accepted, answered or acted upon *)
NoBadAccept == ~badAccept
(* C12: every response the bus owner accepts answers its outstanding request *)
NoMisMatch == ~misMatch
(* C04: the length probe recovers the boundary of every unaltered packet *)
FramingOk == ~framingErr
(* C13: once the assignment was acknowledged both sides agree on the EID, and keep agreeing *)
EidAgreement == learned.eid # -1 =>
                  /\ learned.eid \in {NewEid, NewEid2} /\ m.eidReq = m.eidResp
                  /\ (m.eidResp = learned.eid \/ (outstanding # << >> /\ Cmd(outstanding) = 1))
(* C15: what the bus owner learned is what the endpoint was configured with *)
IdentityOk == /\ learned.uuid # << >> => learned.uuid = Uuid
              /\ learned.types # << -1 >> => learned.types = << Len(Mts) >> \o Mts
              /\ learned.version # << >> => learned.version = VersionEntry
(* X01 / DSP0236: a command the endpoint does not implement is answered with ErrorUnsupportedCmd, *)
(* changes nothing, and the bring-up moves past it                                               *)
UnsuppAnswered == /\ learned.unsupp \in {-1, CC_UNSUPPORTED}
                  /\ (done /\ \E k \in 1..ScriptLen : Script[k] = "unsupp") => learned.unsupp = CC_UNSUPPORTED
(* C14: the sets seen so far are a prefix of the configured ones, each once, in order *)
VField(v) == IF v.format = 0 THEN << 0, v.data[3], v.data[4] >> \o v.num ELSE << 1 >> \o v.data \o v.num
SeenIsPrefix == /\ Len(seen) <= Len(Vids)
                /\ \A i \in 1..Len(seen) : seen[i] = VField(Vids[i])
EnumerationComplete == (done /\ Script[ScriptLen] = "vendor") => Len(seen) = Len(Vids)
(* liveness: the bring-up terminates - completes, or gives up only after exhausting its retries *)
Terminates == <>(done \/ gaveUp)
(* without faults it always completes *)
CompletesWhenClean == (MaxFaults = 0) => <>done
NeverGivesUpWhenRetriesSuffice == (MaxFaults < MaxTries) => [](~gaveUp)
=============================================================================
