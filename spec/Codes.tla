------------------------------- MODULE Codes -------------------------------
(***************************************************************************)
(* Code points of DSP0236 / DSP0239 as the library names them, and the     *)
(* fixed data lengths the properties (C09) state.                          *)
(***************************************************************************)
EXTENDS Naturals, Sequences, FiniteSets, TLC

(* ---- message types (DSP0239) ---- *)
MT_CONTROL == 0      MT_SPDM == 5      MT_SECURED == 6
MT_PCI == 126        MT_IANA == 127    MT_INVALID == 255
SupportedTypes == {MT_CONTROL, MT_SPDM, MT_SECURED, MT_PCI, MT_IANA}

MsgTypeName ==
    (0 :> "MCtpControl") @@ (5 :> "SpdmOverMctp") @@ (6 :> "SecuredMessages") @@
    (126 :> "VendorDefinedPCI") @@ (127 :> "VendorDefinedIANA") @@ (255 :> "Invalid")

(* wire byte -> enumeration variant name (total) *)
TypeOfByte(b) == IF b \in SupportedTypes THEN MsgTypeName[b] ELSE "Invalid"

(* ---- control command codes (DSP0236 table 12) ---- *)
CmdName == <<
    "SetEndpointID", "GetEndpointID", "GetEndpointUUID", "GetMCTPVersionSupport",
    "GetMessageTypeSupport", "GetVendorDefinedMessageSupport", "ResolveEndpointID",
    "AllocateEndpointIDs", "RoutingInformationUpdate", "GetRoutingTableEntries",
    "PrepareForEndpointDiscovery", "EndpointDiscovery", "DiscoveryNotify", "GetNetworkID",
    "QueryHop", "ResolveUUID", "QueryRateLimit", "RequestTXRateLimit", "UpdateRateLimit",
    "QuerySupportedInterfaces" >>

CmdOfByte(b) == IF b = 0 THEN "Reserved"
                ELSE IF b \in 1..20 THEN CmdName[b] ELSE "Unknown"

(* numeric value of each enumeration variant *)
CmdValue(name) == IF name = "Reserved" THEN 0
                  ELSE IF name = "Unknown" THEN 255
                  ELSE CHOOSE b \in 1..20 : CmdName[b] = name
CmdVariants == {"Reserved", "Unknown"} \cup {CmdName[b] : b \in 1..20}

(* ---- completion codes (DSP0236 table 13) ---- *)
CcName == <<"Success", "Error", "ErrorInvalidData", "ErrorInvalidLength",
            "ErrorNotReady", "ErrorUnsupportedCmd">>
CcOfByte(b) == CcName[b + 1]                 \* defined for 0..5 only
CC_SUCCESS == 0   CC_INVALID_DATA == 2   CC_UNSUPPORTED == 5

MsgTypeValue(name) == CHOOSE b \in {0,5,6,126,127,255} : MsgTypeName[b] = name

(* ---- fixed data lengths as C09 states them; 0 = no fixed length ---- *)
FixedReqLen(cmd) ==
    CASE cmd = 1 -> 2 [] cmd = 4 -> 1 [] cmd = 6 -> 1 [] cmd = 7 -> 1 [] cmd = 8 -> 3
      [] OTHER -> 0
FixedRespLen(cmd) ==
    CASE cmd = 1 -> 3 [] cmd = 3 -> 16 [] cmd = 4 -> 5 [] OTHER -> 0
(* responses whose length C09 places outside the claim *)
RespLenUnclaimed == {2, 8, 9}

(* the library's own table for those (mctp_traits.rs) - as-is model only *)
LibRespLen(cmd) ==
    CASE cmd = 2 -> 4 [] cmd = 8 -> 4 [] cmd = 9 -> 1 [] OTHER -> FixedRespLen(cmd)

(* commands the request processor answers *)
Answerable == 1..6
=============================================================================
