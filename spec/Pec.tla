-------------------------------- MODULE Pec --------------------------------
(***************************************************************************)
(* The SMBus Packet Error Code, written from its definition: CRC-8 with    *)
(* generator x^8 + x^2 + x + 1, message bits fed most-significant first,   *)
(* register initially 0, no reflection, no final XOR.  Nothing here is     *)
(* derived from the library or from the smbus-pec crate.                   *)
(***************************************************************************)
EXTENDS Naturals, Sequences, Bitwise

(* one message bit into the 8-bit LFSR *)
Feed(r, bit) ==
    LET top == r \div 128
        sh  == (r * 2) % 256
    IN  IF top # bit THEN sh ^^ 7 ELSE sh

BitOf(b, k) == (b \div (2^k)) % 2            \* bit k (7 = first on the wire)

FeedByte(r, b) ==
    Feed(Feed(Feed(Feed(Feed(Feed(Feed(Feed(r,
        BitOf(b, 7)), BitOf(b, 6)), BitOf(b, 5)), BitOf(b, 4)),
        BitOf(b, 3)), BitOf(b, 2)), BitOf(b, 1)), BitOf(b, 0))

(* Table[x] = register after feeding byte x into a zero register.  By      *)
(* linearity FeedByte(r, b) = Table[r XOR b] (checked in MC_Pec).          *)
Table == [x \in 0..255 |-> FeedByte(0, x)]

RECURSIVE PecFrom(_, _, _)
PecFrom(s, i, r) == IF i > Len(s) THEN r ELSE PecFrom(s, i + 1, Table[r ^^ s[i]])

(* the PEC of a byte sequence *)
PEC(s) == PecFrom(s, 1, 0)

(* "the last byte is the PEC of all bytes before it" *)
PecOk(p) == Len(p) >= 1 /\ p[Len(p)] = PEC(SubSeq(p, 1, Len(p) - 1))

(* Known answers: literal packets found in the repository's tests that     *)
(* were captured from other implementations (the tests only decode them).  *)
KnownAnswers ==
    /\ PEC(<<68,15,10,105,1,34,52,200,5,16,132,0,0>>) = 156               \* 0x9C
    /\ PEC(<<104,15,14,69,1,52,34,200,5,16,4,0,0,0,1,0,18>>) = 151        \* 0x97
    /\ PEC(<<70,15,42,23,1,35,11,192,126,20,20,0,1>> \o [i \in 1..32 |-> 0]) = 66  \* 0x42
    /\ PEC(<<>>) = 0
    /\ PEC(<<1>>) = 7 /\ PEC(<<128>>) = 137                                \* x^8 mod g = x^2+x+1 ; x^15 mod g
=============================================================================
