-------------------------------- MODULE Pec --------------------------------
(***************************************************************************)
(* The SMBus Packet Error Code, written from its definition: CRC-8 with    *)
(* generator x^8 + x^2 + x + 1, message bits fed most-significant first,   *)
(* register initially 0, no reflection, no final XOR.  Nothing here is     *)
(* derived from the library or from the smbus-pec crate.                   *)
(***************************************************************************)
EXTENDS Naturals, Sequences, Bitwise

(* one message bit into the 8-bit LFSR *)
Feed(r, bit) ==
    LET top == r \div 128
        sh  == (r * 2) % 256
    IN  IF top # bit THEN sh ^^ 7 ELSE sh

BitOf(b, k) == (b \div (2^k)) % 2            \* bit k (7 = first on the wire)

FeedByte(r, b) ==
    Feed(Feed(Feed(Feed(Feed(Feed(Feed(Feed(r,
        BitOf(b, 7)), BitOf(b, 6)), BitOf(b, 5)), BitOf(b, 4)),
        BitOf(b, 3)), BitOf(b, 2)), BitOf(b, 1)), BitOf(b, 0))

(* Table[x] = register after feeding byte x into a zero register.  By      *)
(* linearity FeedByte(r, b) = Table[r XOR b].                              *)
Table == [x \in 0..255 |-> FeedByte(0, x)]

(* The same table written out, so that TLC applies it in constant time     *)
(* (a function constructor is re-evaluated on every application).  MC_Pec  *)
(* checks TableLit[x + 1] = FeedByte(0, x) for all x, so the literal adds   *)
(* nothing to the trusted base.                                            *)
TableLit == <<
      0,   7,  14,   9,  28,  27,  18,  21,  56,  63,  54,  49,  36,  35,  42,  45,
    112, 119, 126, 121, 108, 107,  98, 101,  72,  79,  70,  65,  84,  83,  90,  93,
    224, 231, 238, 233, 252, 251, 242, 245, 216, 223, 214, 209, 196, 195, 202, 205,
    144, 151, 158, 153, 140, 139, 130, 133, 168, 175, 166, 161, 180, 179, 186, 189,
    199, 192, 201, 206, 219, 220, 213, 210, 255, 248, 241, 246, 227, 228, 237, 234,
    183, 176, 185, 190, 171, 172, 165, 162, 143, 136, 129, 134, 147, 148, 157, 154,
     39,  32,  41,  46,  59,  60,  53,  50,  31,  24,  17,  22,   3,   4,  13,  10,
     87,  80,  89,  94,  75,  76,  69,  66, 111, 104,  97, 102, 115, 116, 125, 122,
    137, 142, 135, 128, 149, 146, 155, 156, 177, 182, 191, 184, 173, 170, 163, 164,
    249, 254, 247, 240, 229, 226, 235, 236, 193, 198, 207, 200, 221, 218, 211, 212,
    105, 110, 103,  96, 117, 114, 123, 124,  81,  86,  95,  88,  77,  74,  67,  68,
     25,  30,  23,  16,   5,   2,  11,  12,  33,  38,  47,  40,  61,  58,  51,  52,
     78,  73,  64,  71,  82,  85,  92,  91, 118, 113, 120, 127, 106, 109, 100,  99,
     62,  57,  48,  55,  34,  37,  44,  43,   6,   1,   8,  15,  26,  29,  20,  19,
    174, 169, 160, 167, 178, 181, 188, 187, 150, 145, 152, 159, 138, 141, 132, 131,
    222, 217, 208, 215, 194, 197, 204, 203, 230, 225, 232, 239, 250, 253, 244, 243 >>

RECURSIVE PecFrom(_, _, _, _)
PecFrom(s, i, n, r) == IF i > n THEN r ELSE PecFrom(s, i + 1, n, TableLit[(r ^^ s[i]) + 1])

(* the PEC of the first n bytes of s *)
PecUpTo(s, n) == PecFrom(s, 1, n, 0)

(* the PEC of a byte sequence *)
PEC(s) == PecUpTo(s, Len(s))

(* "the last byte is the PEC of all bytes before it" *)
PecOk(p) == Len(p) >= 1 /\ p[Len(p)] = PecUpTo(p, Len(p) - 1)

(* Known answers: literal packets found in the repository's tests that     *)
(* were captured from other implementations (the tests only decode them).  *)
KnownAnswers ==
    /\ PEC(<<68,15,10,105,1,34,52,200,5,16,132,0,0>>) = 156               \* 0x9C
    /\ PEC(<<104,15,14,69,1,52,34,200,5,16,4,0,0,0,1,0,18>>) = 151        \* 0x97
    /\ PEC(<<70,15,42,23,1,35,11,192,126,20,20,0,1>> \o [i \in 1..32 |-> 0]) = 66  \* 0x42
    /\ PEC(<<>>) = 0
    /\ PEC(<<1>>) = 7 /\ PEC(<<128>>) = 137                                \* x^8 mod g = x^2+x+1 ; x^15 mod g
=============================================================================
