------------------------------ MODULE Findings ------------------------------
(***************************************************************************)
(* Named deviations of today's code from the ideal specification.  Each    *)
(* id owns an input class and an exact as-is outcome, modelled where the   *)
(* decision is taken: Codec!Dec, Responder!Proc, Responder!WriterAsIs and the  *)
(* per-property explanations in Trace.tla.  The constant Open of a model   *)
(* or trace run says which of them are currently accepted as known         *)
(* findings; a deviation that is not open suppresses nothing.              *)
(***************************************************************************)
EXTENDS Naturals, Sequences, TLC

Deviation == { "IANA_SLICE", "GETEID_RESP_LEN", "LEN_TABLE_PANIC", "PROCESS_SPDM", "IID_ZERO",
               "QUERYHOP_CODE", "BYTECOUNT_WRAP", "SHORT_INPUT", "SHORT_PROBE",
               "CC_UNREACHABLE", "SETEID_OP", "UNSUPPORTED_CMD", "SELECTOR_RANGE" }

(* the properties each deviation can make fail *)
DevProps == [
    IANA_SLICE       |-> {"C01", "C09", "C10"},
    GETEID_RESP_LEN  |-> {"C01"},
    LEN_TABLE_PANIC  |-> {"C01", "C10"},
    PROCESS_SPDM     |-> {"C11"},
    IID_ZERO         |-> {"C12"},
    QUERYHOP_CODE    |-> {"C06"},
    BYTECOUNT_WRAP   |-> {"C04", "C10", "C16"},
    SHORT_INPUT      |-> {"C10"},
    SHORT_PROBE      |-> {"C10", "C17"},
    CC_UNREACHABLE   |-> {"C10"},
    SETEID_OP        |-> {"C10"},
    UNSUPPORTED_CMD  |-> {"C10"},
    SELECTOR_RANGE   |-> {"C10"} ]
=============================================================================
