------------------------------ MODULE Endpoint ------------------------------
(***************************************************************************)
(* The endpoint as a state machine: one action per public call of          *)
(* MCTPSMBusContext (in a sequential library the linearisation point of a  *)
(* call is its return).  State per context c:                              *)
(*   ctx[c]  = [addr, mts, vids, eidReq, eidResp, uuid]   (Responder)       *)
(*   hist[c] = what the *property text* of C13/C15 says the observable      *)
(*             state must be: the EID of the most recent accepted Set/Force *)
(*             assignment or accessor store per half, the last UUID stored. *)
(*   out     = the observation of the last call                             *)
(* ctx is advanced by Responder!Proc (the oracle the trace monitor uses),    *)
(* hist by the sentences of the properties, written independently; the       *)
(* invariants compare the two over every history of the input alphabet.      *)
(***************************************************************************)
EXTENDS Integers, Sequences, FiniteSets, TLC, Bytes, Codes, Codec, Responder
L == INSTANCE Layout

CONSTANTS CtxIds,      \* context identifiers
          Cfg,         \* Cfg[c] = [addr, mts, vids]
          Packets,     \* input alphabet: a set of byte strings
          EidVals,     \* values stored through the accessors
          UuidVals,    \* UUIDs installed with set_uuid
          Ops,         \* which kinds of call the instance explores: subset of {"process","decode","get_length","enc","set"}
          O            \* open deviations ({} = ideal)

VARIABLES ctx, hist, out
vars == << ctx, hist, out >>

NoOut == [op |-> "none", c |-> 0, p |-> << >>, kind |-> "", type |-> 0, lo |-> 0, hi |-> 0, err |-> "", cc |-> 0,
          has |-> FALSE, resp |-> << >>, arg |-> 0]

Init == /\ ctx  = [c \in CtxIds |-> NewCtx(Cfg[c].addr, Cfg[c].mts, Cfg[c].vids)]
        /\ hist = [c \in CtxIds |-> [req |-> 0, resp |-> 0, uuid |-> ZeroUuid]]
        /\ out  = NoOut

(* "accepted Set Endpoint ID request whose operation was Set or Force", from the property text *)
IsAssignment(p) ==
    /\ WellFormed(p) /\ IsCtl(p) /\ Rq(p) = 1 /\ Cmd(p) = 1 /\ p[12] \in {0, 1}

ProcessStep(c, p, x) ==
    /\ ctx' = IF x.neweid = -1 THEN ctx
              ELSE [ctx EXCEPT ![c].eidReq = x.neweid, ![c].eidResp = x.neweid]
    /\ hist' = IF IsAssignment(p) THEN [hist EXCEPT ![c].req = p[13], ![c].resp = p[13]] ELSE hist
    /\ out' = [op |-> "process", c |-> c, p |-> p, kind |-> x.kind, type |-> x.type, lo |-> x.lo, hi |-> x.hi,
               err |-> x.err, cc |-> x.cc, has |-> x.has, resp |-> x.resp, arg |-> 0]
Process(c, p) == ProcessStep(c, p, Proc(p, ctx[c], O))

DecodeStep(c, p, d) ==
    /\ UNCHANGED << ctx, hist >>
    /\ out' = [op |-> "decode", c |-> c, p |-> p, kind |-> d.kind, type |-> d.type, lo |-> d.lo, hi |-> d.hi,
               err |-> d.err, cc |-> d.cc, has |-> FALSE, resp |-> << >>, arg |-> 0]
Decode(c, p) == DecodeStep(c, p, Dec(p, O))

(* the length probe: no effect on the context; its answer is a function of the first three bytes (C17) *)
GetLength(c, p) ==
    /\ UNCHANGED << ctx, hist >>
    /\ out' = [NoOut EXCEPT !.op = "get_length", !.c = c, !.p = p,
                            !.kind = IF Len(p) >= 3 THEN GetLengthOf(p).kind ELSE "err",
                            !.hi = IF Len(p) >= 3 THEN GetLengthOf(p).len ELSE 0]

(* the two response encoders that report the EID: no effect on the context, output built from the response half *)
EncArgs(name) == IF name = "set_endpoint_id" THEN [dst |-> 17, cc |-> 0, assignment |-> 0, allocation |-> 0]
                                             ELSE [dst |-> 17, cc |-> 0, endpoint_type |-> 0, id_type |-> 0, fairness |-> 0]
EncodeResp(c, name) ==
    /\ UNCHANGED << ctx, hist >>
    /\ out' = [NoOut EXCEPT !.op = "enc_resp", !.c = c, !.arg = name, !.kind = "ok",
                            !.resp = Frame(17, ctx[c].addr, MT_CONTROL, RespRest(name, EncArgs(name), ctx[c].eidResp))]

SetEidReq(c, e) == /\ ctx' = [ctx EXCEPT ![c].eidReq = e] /\ hist' = [hist EXCEPT ![c].req = e]
                   /\ out' = [NoOut EXCEPT !.op = "set_eid_req", !.c = c, !.arg = e]
SetEidResp(c, e) == /\ ctx' = [ctx EXCEPT ![c].eidResp = e] /\ hist' = [hist EXCEPT ![c].resp = e]
                    /\ out' = [NoOut EXCEPT !.op = "set_eid_resp", !.c = c, !.arg = e]
SetUuid(c, u) == /\ ctx' = [ctx EXCEPT ![c].uuid = u] /\ hist' = [hist EXCEPT ![c].uuid = u]
                 /\ out' = [NoOut EXCEPT !.op = "set_uuid", !.c = c, !.arg = u]

Next == \E c \in CtxIds :
          \/ "process" \in Ops /\ \E p \in Packets : Process(c, p)
          \/ "decode" \in Ops /\ \E p \in Packets : Decode(c, p)
          \/ "get_length" \in Ops /\ \E p \in Packets : GetLength(c, p)
          \/ "enc" \in Ops /\ \E n \in {"set_endpoint_id", "get_endpoint_id"} : EncodeResp(c, n)
          \/ "set" \in Ops /\ ( \/ \E e \in EidVals : SetEidReq(c, e) \/ SetEidResp(c, e)
                                 \/ \E u \in UuidVals : SetUuid(c, u) )

Spec == Init /\ [][Next]_vars

(* ------------------------------ properties ------------------------------ *)
(* C13: the EID is the last one assigned *)
InvC13 == \A c \in CtxIds : ctx[c].eidReq = hist[c].req /\ ctx[c].eidResp = hist[c].resp

(* C13: nothing else changes it (action property) *)
EidsOf(f) == [c \in CtxIds |-> << f[c].eidReq, f[c].eidResp >>]
OnlyAssignChanges ==
    [][ EidsOf(ctx') # EidsOf(ctx) =>
          \/ out'.op \in {"set_eid_req", "set_eid_resp"}
          \/ out'.op = "process" /\ IsAssignment(out'.p) /\ out'.kind = "ok" /\ out'.has ]_vars

(* C13: an accepted assignment (EID in range) is answered Success / accepted / new EID; *)
(* Set Discovered Flag with ErrorInvalidData; Get Endpoint ID reports the current EID   *)
RespOf(o) == o.resp
InvC13Resp ==
    (out.op = "process" /\ out.kind = "ok" /\ IsCtl(out.p) /\ Rq(out.p) = 1 /\ Cmd(out.p) \in {1, 2}) =>
      LET R == out.resp IN
      /\ (Cmd(out.p) = 1 /\ out.p[12] \in {0, 1} /\ out.p[13] \in 1..254) =>
            out.has /\ R[12] = 0 /\ Bits(R[13], 5, 4) = 0 /\ R[14] = out.p[13] /\ R[14] = ctx[out.c].eidResp
      /\ (Cmd(out.p) = 1 /\ out.p[12] = 3) => out.has /\ R[12] = CC_INVALID_DATA
      /\ Cmd(out.p) = 2 => out.has /\ R[12] = 0 /\ R[13] = hist[out.c].resp

(* C07 / C13: the response encoders report the EID of the response half, whatever the history *)
InvEncEid == out.op = "enc_resp" =>
               /\ PecGood(out.resp)
               /\ (IF out.arg = "set_endpoint_id" THEN out.resp[14] ELSE out.resp[13]) = hist[out.c].resp

(* C02: input with a bad PEC is never accepted, answered or acted upon *)
InvC02 == (out.op \in {"process", "decode"} /\ ~PecGood(out.p)) => (out.kind # "ok" /\ ~out.has)
BadPecChangesNothing ==
    [][ (out'.op = "process" /\ ~PecGood(out'.p)) => (ctx' = ctx /\ hist' = hist) ]_vars

(* C10 on the ideal specification *)
InvC10 == out.kind # "panic"

(* C11: processing agrees with decoding; a response only for accepted control requests *)
InvC11 ==
    out.op = "process" =>
      LET d == Dec(out.p, O) IN
      /\ (out.kind = d.kind /\ out.type = d.type /\ out.lo = d.lo /\ out.hi = d.hi /\ out.err = d.err /\ out.cc = d.cc)
      /\ out.has => (d.kind = "ok" /\ d.type = MT_CONTROL /\ Rq(out.p) = 1)
      /\ ~out.has => out.resp = << >>

(* C12: the response is a well-formed packet that correlates with the request *)
InC12Domain(p, m) ==
    /\ WellFormed(p) /\ IsCtl(p) /\ Rq(p) = 1 /\ Bits(p[10], 6, 5) = 0 /\ Answered(p, m)
    /\ (Cmd(p) = 1 /\ p[12] \in {0, 1}) => p[13] \in 1..254
    /\ p[4] \div 2 = p[7] /\ p[7] < 128 /\ m.addr < 128
InvC12 ==
    (out.op = "process" /\ InC12Domain(out.p, ctx[out.c])) =>
      LET R == out.resp   m == ctx[out.c]  p == out.p IN
      /\ out.has /\ Len(R) >= 13 /\ Len(R) <= 64
      /\ PecGood(R)
      /\ L!GetAll("smbus", SubSeq(R, 1, 4)) =
           [dest_read_write |-> 0, dest_slave_addr |-> p[4] \div 2, command_code |-> 15,
            byte_count |-> Len(R) - 4, source_read_write |-> 1, source_slave_addr |-> m.addr]
      /\ L!TransportValid(SubSeq(R, 5, 8), 1)
      /\ L!Get("transport", SubSeq(R, 5, 8), "dest_endpoint_id") = p[7]
      /\ L!Get("transport", SubSeq(R, 5, 8), "source_endpoint_id") = m.addr
      /\ L!Get("transport", SubSeq(R, 5, 8), "som") = 1 /\ L!Get("transport", SubSeq(R, 5, 8), "eom") = 1
      /\ L!Get("transport", SubSeq(R, 5, 8), "pkt_seq") = 0
      /\ R[9] = MT_CONTROL
      /\ L!GetAll("control", SubSeq(R, 10, 11)) =
           [rq |-> 0, d |-> 0, instance_id |-> Iid(p), command_code |-> Cmd(p)]
      /\ R[12] \in 0..5
      /\ GetLengthOf(SubSeq(R, 1, 3)) = [kind |-> "ok", len |-> Len(R)]
      (* the requester's own decoder accepts it (or reports its completion code) *)
      /\ LET d == Dec(R, {}) IN
           IF R[12] = 0 THEN d.kind = "ok" \/ Cmd(p) = 2 ELSE d.err = "Unsuccessful" /\ d.cc = R[12]

(* C14 / C15: answers are functions of the configuration and the request only *)
InvC14 ==
    (out.op = "process" /\ out.kind = "ok" /\ IsCtl(out.p) /\ Rq(out.p) = 1 /\ Cmd(out.p) = 6
       /\ out.p[12] < Len(Cfg[out.c].vids)) =>
      LET R == out.resp   v == Cfg[out.c].vids[out.p[12] + 1]   n == Len(Cfg[out.c].vids) IN
      /\ out.has /\ R[12] = 0
      /\ R[13] = (IF out.p[12] + 1 = n THEN 255 ELSE out.p[12] + 1)
      /\ SubSeq(R, 14, Len(R) - 1) =
           (IF v.format = 0 THEN << 0, v.data[3], v.data[4], v.num[1], v.num[2] >>
                            ELSE << 1, v.data[1], v.data[2], v.data[3], v.data[4], v.num[1], v.num[2] >>)
InvC15 ==
    (out.op = "process" /\ out.kind = "ok" /\ IsCtl(out.p) /\ Rq(out.p) = 1 /\ Cmd(out.p) \in 3..5) =>
      LET R == out.resp IN
      /\ out.has /\ R[12] = 0
      /\ Cmd(out.p) = 3 => SubSeq(R, 13, Len(R) - 1) = hist[out.c].uuid
      /\ Cmd(out.p) = 4 => SubSeq(R, 13, Len(R) - 1) = << 1, 241, 243, 241, 0 >>
      /\ Cmd(out.p) = 5 => SubSeq(R, 13, Len(R) - 1) = << Len(Cfg[out.c].mts) >> \o Cfg[out.c].mts
UuidOnlyBySetUuid == [][ (\E c \in CtxIds : ctx'[c].uuid # ctx[c].uuid) => out'.op = "set_uuid" ]_vars
ConfigImmutable == \A c \in CtxIds : ctx[c].addr = Cfg[c].addr /\ ctx[c].mts = Cfg[c].mts /\ ctx[c].vids = Cfg[c].vids

(* C17: the probe answers byte[2] + 4 exactly when byte[1] is the MCTP command code, whatever else is in the input *)
InvC17 == out.op = "get_length" =>
            IF Len(out.p) >= 3 /\ out.p[2] = 15 THEN out.kind = "ok" /\ out.hi = out.p[3] + 4
                                                 ELSE out.kind = "err"

(* C09: the decoder's verdict does not depend on the context *)
InvC09 == out.op = "decode" => DecodeAllowed(out.p, [kind |-> out.kind, type |-> out.type, lo |-> out.lo,
                                                  hi |-> out.hi, err |-> out.err, cc |-> out.cc])
=============================================================================
