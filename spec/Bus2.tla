-------------------------------- MODULE Bus2 --------------------------------
(***************************************************************************)
(* Two endpoints on one SMBus segment.  The bus owner assigns a different  *)
(* EID to each and reads it back.  The hardware delivers a packet to the   *)
(* device whose slave address is in byte 0, so a corruption of that byte   *)
(* (one burst of at most 8 bits, anywhere in the packet) can hand a        *)
(* request meant for one endpoint to the other.                            *)
(*                                                                         *)
(* Property: an endpoint never acts on a packet that was addressed to the  *)
(* other one.  It holds because the PEC covers the destination-address     *)
(* byte (C03: "starting with the destination-address byte") and the        *)
(* receive path checks it before acting (C02).  PecCoversDst = FALSE       *)
(* explores the hypothetical design in which sender and receiver leave     *)
(* that byte out of the PEC: TLC then finds the cross-assignment, which is *)
(* the reason for that clause of C03.                                      *)
(***************************************************************************)
EXTENDS Integers, Sequences, FiniteSets, TLC, Bitwise, Bytes, Codes, Codec, Responder

CONSTANTS Addr,        \* Addr[e] = slave address of endpoint e \in {1, 2}
          Eid,         \* Eid[e]  = EID the bus owner assigns to endpoint e
          BoAddr, Bursts, MaxFaults, MaxTries, PecCoversDst, O

Eps == {1, 2}
Vid == << [format |-> 0, data |-> << 0, 0, 18, 52 >>, num |-> << 0, 171 >>] >>

(* the hypothetical design: the PEC is computed as if byte 0 were zero *)
Reseal(p) == IF PecCoversDst THEN p
             ELSE LET z == [p EXCEPT ![1] = 0] IN
                  [p EXCEPT ![Len(p)] = PecOf(SubSeq(z, 1, Len(z) - 1))]
Unseal(p) == IF PecCoversDst \/ Len(p) < 2 THEN p
             ELSE LET z == [p EXCEPT ![1] = 0] IN
                  IF PecGood(z) THEN [p EXCEPT ![Len(p)] = PecOf(SubSeq(p, 1, Len(p) - 1))]   \* accepted by that design
                  ELSE [p EXCEPT ![Len(p)] = (PecOf(SubSeq(p, 1, Len(p) - 1)) + 1) % 256]      \* rejected by it

Req(e, name, i) ==
    Reseal(Frame(Addr[e], BoAddr, MT_CONTROL,
                 << 128 + i, IF name = "set" THEN 1 ELSE 2 >> \o (IF name = "set" THEN << 0, Eid[e] >> ELSE << >>)))

Corrupted(p, k, pat, sh) ==
    [i \in 1..Len(p) |-> IF i = k THEN p[i] ^^ (pat \div (2^sh))
                          ELSE IF i = k + 1 /\ sh > 0 THEN p[i] ^^ ((pat * (2^(8 - sh))) % 256)
                          ELSE p[i]]

(* the device that the hardware hands the packet to: the one whose address is in byte 0 (0 = nobody) *)
Route(p) == IF Len(p) >= 1 /\ \E e \in Eps : Addr[e] = p[1] \div 2
            THEN CHOOSE e \in Eps : Addr[e] = p[1] \div 2 ELSE 0

Script == << << 1, "set" >>, << 2, "set" >>, << 1, "get" >>, << 2, "get" >> >>

(* --algorithm Bus2 {
  variables
    m = [e \in Eps |-> NewCtx(Addr[e], << >>, Vid)],
    toEp = << >>, toBo = << >>, meant = 0,      \* meant: ghost - the endpoint the packet in flight was sent to
    faults = 0, altered = FALSE,
    step = 1, iid = 0, tries = 0, outstanding = << >>,
    readBack = [e \in Eps |-> -1],
    done = FALSE, gaveUp = FALSE,
    crossAct = FALSE;                          \* an endpoint acted on a packet meant for the other one

  fair process (BusOwner = 10)
  {
  bo: while (~done /\ ~gaveUp) {
        either {
          await outstanding = << >> /\ toEp = << >> /\ toBo = << >>;
          outstanding := Req(Script[step][1], Script[step][2], iid);
          toEp := outstanding; meant := Script[step][1]; altered := FALSE; tries := 1;
        } or {
          await toBo # << >>;
          with (r = toBo, d = Dec(Unseal(toBo), {})) {
            toBo := << >>;
            if (outstanding # << >> /\ Len(r) >= 14 /\ d.kind = "ok"
                /\ r[7] = Addr[Script[step][1]] /\ Rq(r) = 0 /\ Cmd(r) = Cmd(outstanding) /\ Iid(r) = Iid(outstanding)) {
              if (Script[step][2] = "get") { readBack[Script[step][1]] := r[13]; };
              if (step = Len(Script)) { done := TRUE; } else { step := step + 1; };
              outstanding := << >>; iid := (iid + 1) % 32; tries := 0;
            }
          }
        } or {
          await outstanding # << >> /\ toEp = << >> /\ toBo = << >>;
          if (tries < MaxTries) { toEp := outstanding; meant := Script[step][1]; altered := FALSE; tries := tries + 1; }
          else { gaveUp := TRUE; }
        }
      }
  }

  fair process (Endpoint \in Eps)
  {
  ep: while (TRUE) {
        await toEp # << >> /\ toBo = << >> /\ (Route(toEp) = self \/ (Route(toEp) = 0 /\ self = 1));
        if (Route(toEp) = self /\ Len(toEp) >= 3 /\ GetLengthOf(toEp).kind = "ok") {
          with (rx = SubSeq(toEp, 1, Min(GetLengthOf(toEp).len, Len(toEp))), x = Proc(Unseal(rx), m[self], O)) {
            crossAct := crossAct \/ (meant # self /\ (x.kind = "ok" \/ x.has \/ x.neweid # -1));
            if (x.neweid # -1) { m[self] := [m[self] EXCEPT !.eidReq = x.neweid, !.eidResp = x.neweid]; };
            if (x.has) { toBo := Reseal(x.resp); };
          }
        };
        toEp := << >>;                          \* (a packet addressed to nobody is simply lost)
      }
  }

  process (Wire = 11)
  {
  w:  while (TRUE) {
        await faults < MaxFaults /\ toEp # << >> /\ ~altered;
        faults := faults + 1;
        either { toEp := << >>; }
        or { with (k \in 1..Len(toEp), b \in Bursts) { toEp := Corrupted(toEp, k, b[1], b[2]); altered := TRUE; } }
      }
  }
} *)
\* BEGIN TRANSLATION
VARIABLES pc, m, toEp, toBo, meant, faults, altered, step, iid, tries, 
          outstanding, readBack, done, gaveUp, crossAct

vars == << pc, m, toEp, toBo, meant, faults, altered, step, iid, tries, 
           outstanding, readBack, done, gaveUp, crossAct >>

ProcSet == {10} \cup (Eps) \cup {11}

Init == (* Global variables *)
        /\ m = [e \in Eps |-> NewCtx(Addr[e], << >>, Vid)]
        /\ toEp = << >>
        /\ toBo = << >>
        /\ meant = 0
        /\ faults = 0
        /\ altered = FALSE
        /\ step = 1
        /\ iid = 0
        /\ tries = 0
        /\ outstanding = << >>
        /\ readBack = [e \in Eps |-> -1]
        /\ done = FALSE
        /\ gaveUp = FALSE
        /\ crossAct = FALSE
        /\ pc = [self \in ProcSet |-> CASE self = 10 -> "bo"
                                        [] self \in Eps -> "ep"
                                        [] self = 11 -> "w"]

bo == /\ pc[10] = "bo"
      /\ IF ~done /\ ~gaveUp
            THEN /\ \/ /\ outstanding = << >> /\ toEp = << >> /\ toBo = << >>
                       /\ outstanding' = Req(Script[step][1], Script[step][2], iid)
                       /\ toEp' = outstanding'
                       /\ meant' = Script[step][1]
                       /\ altered' = FALSE
                       /\ tries' = 1
                       /\ UNCHANGED <<toBo, step, iid, readBack, done, gaveUp>>
                    \/ /\ toBo # << >>
                       /\ LET r == toBo IN
                            LET d == Dec(Unseal(toBo), {}) IN
                              /\ toBo' = << >>
                              /\ IF outstanding # << >> /\ Len(r) >= 14 /\ d.kind = "ok"
                                    /\ r[7] = Addr[Script[step][1]] /\ Rq(r) = 0 /\ Cmd(r) = Cmd(outstanding) /\ Iid(r) = Iid(outstanding)
                                    THEN /\ IF Script[step][2] = "get"
                                               THEN /\ readBack' = [readBack EXCEPT ![Script[step][1]] = r[13]]
                                               ELSE /\ TRUE
                                                    /\ UNCHANGED readBack
                                         /\ IF step = Len(Script)
                                               THEN /\ done' = TRUE
                                                    /\ step' = step
                                               ELSE /\ step' = step + 1
                                                    /\ done' = done
                                         /\ outstanding' = << >>
                                         /\ iid' = (iid + 1) % 32
                                         /\ tries' = 0
                                    ELSE /\ TRUE
                                         /\ UNCHANGED << step, iid, tries, 
                                                         outstanding, readBack, 
                                                         done >>
                       /\ UNCHANGED <<toEp, meant, altered, gaveUp>>
                    \/ /\ outstanding # << >> /\ toEp = << >> /\ toBo = << >>
                       /\ IF tries < MaxTries
                             THEN /\ toEp' = outstanding
                                  /\ meant' = Script[step][1]
                                  /\ altered' = FALSE
                                  /\ tries' = tries + 1
                                  /\ UNCHANGED gaveUp
                             ELSE /\ gaveUp' = TRUE
                                  /\ UNCHANGED << toEp, meant, altered, tries >>
                       /\ UNCHANGED <<toBo, step, iid, outstanding, readBack, done>>
                 /\ pc' = [pc EXCEPT ![10] = "bo"]
            ELSE /\ pc' = [pc EXCEPT ![10] = "Done"]
                 /\ UNCHANGED << toEp, toBo, meant, altered, step, iid, tries, 
                                 outstanding, readBack, done, gaveUp >>
      /\ UNCHANGED << m, faults, crossAct >>

BusOwner == bo

ep(self) == /\ pc[self] = "ep"
            /\ toEp # << >> /\ toBo = << >> /\ (Route(toEp) = self \/ (Route(toEp) = 0 /\ self = 1))
            /\ IF Route(toEp) = self /\ Len(toEp) >= 3 /\ GetLengthOf(toEp).kind = "ok"
                  THEN /\ LET rx == SubSeq(toEp, 1, Min(GetLengthOf(toEp).len, Len(toEp))) IN
                            LET x == Proc(Unseal(rx), m[self], O) IN
                              /\ crossAct' = (crossAct \/ (meant # self /\ (x.kind = "ok" \/ x.has \/ x.neweid # -1)))
                              /\ IF x.neweid # -1
                                    THEN /\ m' = [m EXCEPT ![self] = [m[self] EXCEPT !.eidReq = x.neweid, !.eidResp = x.neweid]]
                                    ELSE /\ TRUE
                                         /\ m' = m
                              /\ IF x.has
                                    THEN /\ toBo' = Reseal(x.resp)
                                    ELSE /\ TRUE
                                         /\ toBo' = toBo
                  ELSE /\ TRUE
                       /\ UNCHANGED << m, toBo, crossAct >>
            /\ toEp' = << >>
            /\ pc' = [pc EXCEPT ![self] = "ep"]
            /\ UNCHANGED << meant, faults, altered, step, iid, tries, 
                            outstanding, readBack, done, gaveUp >>

Endpoint(self) == ep(self)

w == /\ pc[11] = "w"
     /\ faults < MaxFaults /\ toEp # << >> /\ ~altered
     /\ faults' = faults + 1
     /\ \/ /\ toEp' = << >>
           /\ UNCHANGED altered
        \/ /\ \E k \in 1..Len(toEp):
                \E b \in Bursts:
                  /\ toEp' = Corrupted(toEp, k, b[1], b[2])
                  /\ altered' = TRUE
     /\ pc' = [pc EXCEPT ![11] = "w"]
     /\ UNCHANGED << m, toBo, meant, step, iid, tries, outstanding, readBack, 
                     done, gaveUp, crossAct >>

Wire == w

Next == BusOwner \/ Wire
           \/ (\E self \in Eps: Endpoint(self))

Spec == /\ Init /\ [][Next]_vars
        /\ WF_vars(BusOwner)
        /\ \A self \in Eps : WF_vars(Endpoint(self))

\* END TRANSLATION

NoCrossAct  == ~crossAct
EidsStayOwn == \A e \in Eps : m[e].eidResp \in {0, Eid[e]} /\ m[e].eidReq = m[e].eidResp
ReadBackOk  == \A e \in Eps : readBack[e] \in {-1, Eid[e]}
Terminates  == <>(done \/ gaveUp)
Completes   == (MaxFaults < MaxTries) => [](~gaveUp)
=============================================================================
