------------------------------ MODULE PecBurst ------------------------------
(***************************************************************************)
(* Burst-error detection of the SMBus PEC as a finite state machine.       *)
(*                                                                         *)
(* Two bit streams are fed in lock step into two copies of the LFSR of     *)
(* Pec.tla: the original stream (register ro) and a corrupted copy         *)
(* (register rc) that differs from it only inside one window of at most    *)
(* eight consecutive bits, the first of which is flipped.  A third         *)
(* register re is fed the error stream (the XOR of the two).  Streams are  *)
(* of arbitrary length and content: every reachable (ro, rc) pair after    *)
(* any prefix is a state, and the state space is finite, so TLC's          *)
(* exhaustive search is a proof for all message lengths.                   *)
(*                                                                         *)
(* Detected: from the first flipped bit on, the two registers differ at    *)
(* every later stream position - in particular at the end of the packet,   *)
(* where a valid original has ro = 0 (CRC of message || PEC) and the       *)
(* receiver accepts the corrupted copy iff rc = 0.  The window may lie     *)
(* anywhere, including inside the PEC byte itself.                         *)
(***************************************************************************)
EXTENDS Naturals, Bitwise
LOCAL INSTANCE Pec

VARIABLES phase,   \* "pre" | "burst" | "post"
          n,       \* bits of the window consumed so far (0 before it)
          ro, rc, re

vars == <<phase, n, ro, rc, re>>

Init == phase = "pre" /\ n = 0 /\ ro = 0 /\ rc = 0 /\ re = 0

Pre(b)  == /\ phase = "pre"
           /\ ro' = Feed(ro, b) /\ rc' = Feed(rc, b) /\ re' = Feed(re, 0)
           /\ UNCHANGED <<phase, n>>

Start(b) == /\ phase = "pre"
            /\ ro' = Feed(ro, b) /\ rc' = Feed(rc, 1 - b) /\ re' = Feed(re, 1)
            /\ phase' = "burst" /\ n' = 1

Burst(b, e) == /\ phase = "burst" /\ n < 8
               /\ ro' = Feed(ro, b) /\ rc' = Feed(rc, (b + e) % 2) /\ re' = Feed(re, e)
               /\ n' = n + 1 /\ UNCHANGED phase

Post(b) == /\ phase \in {"burst", "post"}
           /\ ro' = Feed(ro, b) /\ rc' = Feed(rc, b) /\ re' = Feed(re, 0)
           /\ phase' = "post" /\ UNCHANGED n

Next == \E b \in {0, 1} : Pre(b) \/ Start(b) \/ Post(b) \/ \E e \in {0, 1} : Burst(b, e)

Spec == Init /\ [][Next]_vars

TypeOK   == ro \in 0..255 /\ rc \in 0..255 /\ re \in 0..255 /\ n \in 0..8
Linear   == (ro ^^ rc) = re
Detected == phase # "pre" => ro # rc
=============================================================================
