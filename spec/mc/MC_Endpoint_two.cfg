SPECIFICATION Spec
CONSTANT O = {}
CONSTANT Ops = {"process", "set"}
CONSTANT CtxIds = {1, 2}
CONSTANT Cfg <- CfgDef
CONSTANT Packets <- PacketsDef
CONSTANT EidVals = {7}
CONSTANT UuidVals <- UuidValsDef
INVARIANT InvC13
INVARIANT InvC13Resp
INVARIANT InvC02
INVARIANT InvC10
INVARIANT InvC11
INVARIANT InvC12
INVARIANT InvC14
INVARIANT InvC15
INVARIANT InvC09
INVARIANT InvC17
INVARIANT InvEncEid
INVARIANT ConfigImmutable
PROPERTY OnlyAssignChanges
PROPERTY BadPecChangesNothing
PROPERTY UuidOnlyBySetUuid
CHECK_DEADLOCK FALSE
