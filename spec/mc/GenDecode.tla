------------------------------ MODULE GenDecode ------------------------------
(***************************************************************************)
(* spec -> impl: every byte string of MC_Decode's mutation domain is       *)
(* printed as a scenario (decode on two differently configured contexts,   *)
(* the length probe, and the request processor), so that each branch of    *)
(* the transcribed decoder is driven through the real code.                *)
(***************************************************************************)
EXTENDS MC_Decode, Json

NewA == [op |-> "new", ctx |-> 0, addr |-> 35, msg_types |-> << 126 >>,
         vendor_ids |-> << [format |-> 0, data |-> << 0, 0, 18, 52 >>, num |-> << 0, 171 >>] >>]
NewB == [op |-> "new", ctx |-> 1, addr |-> 81, msg_types |-> << >>,
         vendor_ids |-> << [format |-> 1, data |-> << 1, 2, 3, 4 >>, num |-> << 5, 6 >>],
                           [format |-> 0, data |-> << 0, 0, 20, 20 >>, num |-> << 0, 4 >>] >>]

Cmds(p) == << [op |-> "decode", ctx |-> 0, p |-> p], [op |-> "decode", ctx |-> 1, p |-> p],
              [op |-> "get_length", ctx |-> 1, p |-> p],
              [op |-> "process", ctx |-> 0, p |-> p, rbuf_len |-> 64, poison |-> (Len(p) * 29 + 7) % 256] >>

Emit == /\ s.op = "none" => PrintT("SCN " \o ToJson(<< NewA, NewB >>))
        /\ s.op = "pkt"  => PrintT("SCN " \o ToJson(Cmds(s.p)))
=============================================================================
