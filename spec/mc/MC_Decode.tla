------------------------------ MODULE MC_Decode ------------------------------
(***************************************************************************)
(* The receive side over C09's one-field-at-a-time mutation domain.        *)
(*                                                                         *)
(* Base packets of every kind are built with Codec!Frame; a second step    *)
(* replaces one byte (positions 5-13, i.e. transport header, message type, *)
(* control header, command, completion code / first data byte) by each of  *)
(* the 256 values - with the PEC recomputed and with the PEC left stale -  *)
(* truncates the packet at every point, or is a control message with any   *)
(* command code, Rq bit and data length 0..20.                             *)
(*                                                                         *)
(* Invariants: the operational decoder Dec(p, O) (code-ordered) is allowed *)
(* by the declarative relation written from C09's sentence; it accepts     *)
(* exactly the well-formed packets; it never accepts a bad PEC (C02); it   *)
(* never panics (C10, on the ideal spec); the length probe is a function   *)
(* of bytes 2-3 (C17).                                                     *)
(***************************************************************************)
EXTENDS Integers, Sequences, FiniteSets, TLC, Bytes, Codes, Codec

CONSTANTS O, Vals         \* open deviations; byte values used for mutations

VARIABLE s                \* [op |-> "none" | "base" | "pkt", p |-> bytes]

Ctl(rq, iid, cmd, data) == Frame(35, 52, MT_CONTROL, << rq * 128 + iid, cmd >> \o data)

Bases == {
    Ctl(1, 0, 1, << 0, 86 >>), Ctl(1, 7, 2, << >>), Ctl(1, 0, 4, << 255 >>), Ctl(1, 31, 6, << 0 >>),
    Ctl(1, 0, 8, << 0, 8, 16 >>), Ctl(1, 0, 9, << 1, 0, 1, 2, 3 >>), Ctl(1, 0, 16, Fill(17, 7)),
    Ctl(0, 0, 1, << 0, 0, 86, 0 >>), Ctl(0, 0, 3, << 0 >> \o Fill(16, 9)), Ctl(0, 0, 4, << 0, 1, 241, 243, 241, 0 >>),
    Ctl(0, 0, 5, << 0, 2, 126, 5 >>), Ctl(0, 0, 6, << 0, 255, 0, 18, 52 >>), Ctl(0, 0, 2, << 0, 9, 0, 0 >>),
    Ctl(0, 3, 1, << 2, 0, 0, 0 >>),
    Frame(35, 52, MT_PCI, << 18, 52, 1, 2, 3 >>), Frame(35, 52, MT_PCI, << >>),
    Frame(35, 52, MT_IANA, << 0, 0, 1, 157, 9 >>), Frame(35, 52, MT_IANA, << >>),
    Frame(35, 52, MT_SPDM, << 16, 132, 0, 0 >>), Frame(35, 52, MT_SECURED, << 1 >>) }

Refix(p) == Patch(p, Len(p), PecOf(SubSeq(p, 1, Len(p) - 1)))

Init == s = [op |-> "none", p |-> << >>]

PickBase == s.op = "none" /\ \E b \in Bases : s' = [op |-> "base", p |-> b]

Mutate ==
    /\ s.op = "base"
    /\ \/ \E i \in 5..13, v \in Vals : i < Len(s.p) /\
            \/ s' = [op |-> "pkt", p |-> Patch(s.p, i, v)]              \* stale PEC
            \/ s' = [op |-> "pkt", p |-> Refix(Patch(s.p, i, v))]
       \/ \E k \in 0..Len(s.p) :
            \/ s' = [op |-> "pkt", p |-> SubSeq(s.p, 1, k)]             \* truncation
            \/ k >= 1 /\ s' = [op |-> "pkt", p |-> Refix(SubSeq(s.p, 1, k))]
       \/ \E v \in Vals : s' = [op |-> "pkt", p |-> Patch(s.p, Len(s.p), v)]   \* every PEC byte
       \/ s' = [op |-> "pkt", p |-> s.p]

(* every command code x Rq x data length, completion codes *)
Sweep ==
    /\ s.op = "none"
    /\ \/ \E cmd \in Vals, rq \in {0, 1}, n \in 0..20 :
            s' = [op |-> "pkt", p |-> Ctl(rq, 0, cmd, (IF rq = 0 THEN << 0 >> ELSE << >>) \o Fill(n, 3))]
       \/ \E cc \in Vals, cmd \in {1, 2, 3, 7, 10, 255}, n \in {0, 3} :
            s' = [op |-> "pkt", p |-> Ctl(0, 0, cmd, << cc >> \o Fill(n, 3))]
       \/ \E n \in 240..249, t \in {MT_PCI, MT_IANA, MT_SPDM, MT_CONTROL} :
            s' = [op |-> "pkt", p |-> Frame(35, 52, t, << 128, 2 >> \o Fill(n - 2, 5))]

Next == PickBase \/ Mutate \/ Sweep
Spec == Init /\ [][Next]_s

(* ------------------------------ properties ------------------------------ *)
C09P(p, d, k) ==
    /\ DecodeAllowedK(p, d, k)
    /\ Claimed(p) => ((d.kind = "ok") <=> WellFormedK(p, k))
    /\ d.kind = "ok" => /\ d.lo = Span(p).lo /\ d.hi = Len(p) - 1      \* payload ends right before the PEC
                        /\ d.lo <= d.hi
C02P(p, d, k) == d.kind = "ok" => k
C10P(p, d)    == d.kind # "panic"
C17P(p) == Len(p) >= 3 =>
             /\ GetLengthOf(p) = GetLengthOf(SubSeq(p, 1, 3))
             /\ (GetLengthOf(p).kind = "ok") <=> (p[2] = 15)
             /\ GetLengthOf(p).kind = "ok" => GetLengthOf(p).len = p[3] + 4

AllP(p, k) == LET d == DecK(p, O, k) IN C09P(p, d, k) /\ C02P(p, d, k) /\ C10P(p, d) /\ C17P(p)

InvC09 == s.op = "pkt" => C09P(s.p, Dec(s.p, O), PecGood(s.p))
InvC02 == s.op = "pkt" => C02P(s.p, Dec(s.p, O), PecGood(s.p))
InvC10 == s.op = "pkt" => C10P(s.p, Dec(s.p, O))
InvC17 == s.op = "pkt" => C17P(s.p)

(* every base packet is accepted as it stands (non-vacuity of the mutations) *)
InvBase == s.op = "base" => (Claimed(s.p) => (WellFormed(s.p) \/ (IsCtl(s.p) /\ Rq(s.p) = 0 /\ CcByte(s.p) # 0)))
=============================================================================
