SPECIFICATION Spec
CONSTANT O = {}
CONSTANT EpAddr = 35
CONSTANT BoAddr = 17
CONSTANT NewEid = 86
CONSTANT NewEid2 = 87
CONSTANT Mts <- MtsDef
CONSTANT Vids <- VidsDef
CONSTANT Uuid <- UuidDef
CONSTANT MaxFaults = 1
CONSTANT MaxTries = 2
CONSTANT FaultKinds = {"drop", "trunc", "burst"}
CONSTANT Bursts <- BurstsDef
CONSTANT Script <- ScriptReassign
INVARIANT NoBadAccept
INVARIANT NoMisMatch
INVARIANT FramingOk
INVARIANT EidAgreement
INVARIANT IdentityOk
INVARIANT UnsuppAnswered
INVARIANT SeenIsPrefix
INVARIANT EnumerationComplete
PROPERTY Terminates
PROPERTY NeverGivesUpWhenRetriesSuffice
CHECK_DEADLOCK FALSE
