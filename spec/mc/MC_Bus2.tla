------------------------------- MODULE MC_Bus2 -------------------------------
EXTENDS Bus2
(* the two slave addresses differ in one bit, so a single-bit flip of byte 0 re-routes a packet *)
AddrDef == (1 :> 35) @@ (2 :> 34)
EidDef  == (1 :> 86) @@ (2 :> 87)
BurstsDef == { << 128, 0 >>, << 1, 0 >>, << 2, 0 >>, << 3, 0 >>, << 255, 0 >>, << 255, 4 >>, << 129, 7 >> }
=============================================================================
