SPECIFICATION GSpec
CONSTANT O = {}
CONSTANT EpAddr = 35
CONSTANT BoAddr = 17
CONSTANT NewEid = 86
CONSTANT Mts <- MtsDef
CONSTANT Vids <- VidsDef
CONSTANT Uuid <- UuidDef
CONSTANT MaxFaults = 2
CONSTANT MaxTries = 3
CONSTANT Bursts <- BurstsDef
CONSTANT Script <- ScriptAll
CHECK_DEADLOCK FALSE
INVARIANT Emit
