SPECIFICATION GSpec
CONSTANT O = {}
CONSTANT Ops = {"process", "decode", "get_length", "enc", "set"}
CONSTANT CtxIds = {1, 2}
CONSTANT Cfg <- CfgDef
CONSTANT Packets <- PacketsDef
CONSTANT EidVals = {2, 7}
CONSTANT UuidVals <- UuidValsDef
CONSTANT Depth = 40
INVARIANT Emit
CHECK_DEADLOCK FALSE
