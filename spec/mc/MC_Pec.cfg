SPECIFICATION Spec
INVARIANT TypeOK
INVARIANT Linear
INVARIANT Detected
CHECK_DEADLOCK FALSE
