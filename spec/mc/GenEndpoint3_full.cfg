SPECIFICATION GSpec
CONSTANT O = {}
CONSTANT Ops = {"process", "decode", "get_length", "set"}
CONSTANT CtxIds = {1}
CONSTANT Cfg <- CfgDef
CONSTANT Packets <- PacketsCore
CONSTANT EidVals = {2, 7}
CONSTANT UuidVals <- UuidValsDef
CONSTANT Depth = 3
INVARIANT Emit
CHECK_DEADLOCK FALSE
