SPECIFICATION Spec
CONSTANT Others = {0, 255, 165, 90}
INVARIANT InvC18
INVARIANT InvValid
CHECK_DEADLOCK FALSE
