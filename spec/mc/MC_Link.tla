------------------------------- MODULE MC_Link -------------------------------
EXTENDS Link

VidsDef == << [format |-> 0, data |-> << 0, 0, 18, 52 >>, num |-> << 0, 171 >>],
              [format |-> 1, data |-> << 17, 34, 51, 68 >>, num |-> << 85, 102 >>],
              [format |-> 0, data |-> << 0, 0, 190, 239 >>, num |-> << 1, 0 >>] >>
UuidDef   == [i \in 1..16 |-> 15 * i + 1]
MtsDef    == << 126, 5 >>
ScriptAll == << "set", "geteid", "uuid", "version", "types", "unsupp", "vendor" >>
ScriptShort == << "set", "geteid", "vendor" >>
ScriptReassign == << "set", "geteid", "set2", "geteid" >>
(* single-bit flips at both ends of a byte, a full-byte burst, a burst straddling two bytes *)
BurstsDef == { << 128, 0 >>, << 1, 0 >>, << 255, 0 >>, << 255, 4 >>, << 129, 3 >> }
BurstsOne == { << 16, 0 >> }
=============================================================================
