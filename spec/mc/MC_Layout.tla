------------------------------ MODULE MC_Layout ------------------------------
(***************************************************************************)
(* C18 / C19 on the specification: the byte/bit table of Layout.tla is     *)
(* cross-checked against a second, independent transcription - the bit     *)
(* ranges exactly as the library's documentation numbers them (MSB0 or     *)
(* LSB0 bit indices over the whole buffer) - for every raw buffer of the   *)
(* 1- and 2-byte views and per-byte sweeps of the 4-byte views; setters    *)
(* change only their own field and read back the value truncated to the    *)
(* field width; fields are disjoint and, with the reserved bits, cover the *)
(* buffer; the validators accept exactly the documented raws.  The code    *)
(* point tables of Codes.tla are total and invert the numeric values.      *)
(***************************************************************************)
EXTENDS Integers, Sequences, FiniteSets, TLC, Bytes, Codes
L == INSTANCE Layout

(* documented bit ranges << msb, lsb >> in the numbering order of each view *)
Doc == [
  smbus |-> [order |-> "lsb0", f |-> [ dest_read_write |-> << 0, 0 >>, dest_slave_addr |-> << 7, 1 >>,
              command_code |-> << 15, 8 >>, byte_count |-> << 23, 16 >>,
              source_read_write |-> << 24, 24 >>, source_slave_addr |-> << 31, 25 >> ]],
  transport |-> [order |-> "msb0", f |-> [ hdr_version |-> << 7, 4 >>, dest_endpoint_id |-> << 15, 8 >>,
              source_endpoint_id |-> << 23, 16 >>, som |-> << 24, 24 >>, eom |-> << 25, 25 >>,
              pkt_seq |-> << 27, 26 >>, to |-> << 28, 28 >>, msg_tag |-> << 31, 29 >> ]],
  body |-> [order |-> "msb0", f |-> [ msg_type |-> << 7, 1 >> ]],
  control |-> [order |-> "msb0", f |-> [ rq |-> << 0, 0 >>, d |-> << 1, 1 >>, instance_id |-> << 7, 3 >>,
              command_code |-> << 15, 8 >> ]],
  routing |-> [order |-> "lsb0", f |-> [ entry_type |-> << 3, 0 >>, eid_range_size |-> << 15, 8 >>,
              first_eid |-> << 23, 16 >>, physical_address |-> << 31, 24 >> ]] ]

BitM(raw, i) == (raw[(i \div 8) + 1] \div (2^(7 - (i % 8)))) % 2      \* MSB0: bit 0 = MSB of byte 0
BitL(raw, i) == (raw[(i \div 8) + 1] \div (2^(i % 8))) % 2            \* LSB0: bit 0 = LSB of byte 0

RECURSIVE ValM(_, _, _), ValL(_, _, _)
ValM(raw, lo, hi) == IF lo > hi THEN 0 ELSE BitM(raw, hi) + 2 * ValM(raw, lo, hi - 1)   \* first index most significant
ValL(raw, lo, hi) == IF lo > hi THEN 0 ELSE BitL(raw, lo) + 2 * ValL(raw, lo + 1, hi)   \* last index most significant

DocGet(v, raw, f) == LET r == Doc[v].f[f] IN
                     IF Doc[v].order = "msb0" THEN ValM(raw, r[2], r[1]) ELSE ValL(raw, r[2], r[1])

Views == DOMAIN Doc
VARIABLE s                         \* [op, view, raw]

CONSTANT Others
Raws(v) == IF L!ViewLen[v] = 1 THEN {<< a >> : a \in 0..255}
           ELSE IF L!ViewLen[v] = 2 THEN {<< a, b >> : a \in 0..255, b \in {0, 1, 127, 128, 255, 165}}
                                          \cup {<< b, a >> : a \in 0..255, b \in {0, 1, 127, 128, 255, 165}}
           ELSE UNION {{ [i \in 1..4 |-> IF i = k THEN a ELSE o] : a \in 0..255, o \in Others } : k \in 1..4}

Init == s = [op |-> "none"]
PickView == s.op = "none" /\ \E v \in Views : s' = [op |-> "view", view |-> v]
PickRaw  == s.op = "view" /\ \E r \in Raws(s.view) : s' = [op |-> "raw", view |-> s.view, raw |-> r]
Next == PickView \/ PickRaw
Spec == Init /\ [][Next]_s

ReadsAgree(v, raw) == \A f \in L!Fields(v) : L!Get(v, raw, f) = DocGet(v, raw, f)

SetVals == {0, 1, 2, 3, 7, 15, 16, 31, 32, 127, 128, 254, 255}
WritesOk(v, raw) ==
    \A f \in L!Fields(v) : \A x \in SetVals :
        LET after == L!Set(v, raw, f, x) IN
        /\ L!Get(v, after, f) = x % (2^L!Width(v, f))
        /\ DocGet(v, after, f) = x % (2^L!Width(v, f))
        /\ \A g \in L!Fields(v) \ {f} : L!Get(v, after, g) = L!Get(v, raw, g)
        /\ \A r \in L!Reserved[v] : Bits(after[r.byte], r.hi, r.lo) = Bits(raw[r.byte], r.hi, r.lo)
        /\ Len(after) = Len(raw) /\ IsByteSeq(after)

InvC18 == s.op = "raw" => ReadsAgree(s.view, s.raw) /\ WritesOk(s.view, s.raw)

InvValid == s.op = "raw" =>
    /\ s.view = "transport" =>
         \A ver \in 0..17 : L!TransportValid(s.raw, ver) <=> (ValM(s.raw, 0, 3) = 0 /\ ValM(s.raw, 4, 7) = ver)
    /\ s.view = "body" =>
         (L!BodyHdrValid(s.raw) <=> (BitM(s.raw, 0) = 0 /\ ValM(s.raw, 1, 7) \in {0, 5, 6, 126, 127}))

ASSUME \A v \in Views : L!Disjoint(v) /\ L!Covers(v)
ASSUME \A v \in Views : DOMAIN Doc[v].f = L!Fields(v)
ASSUME \A v \in Views : \A f \in L!Fields(v) : L!Width(v, f) = Doc[v].f[f][1] - Doc[v].f[f][2] + 1

(* C19 on the tables *)
ASSUME \A b \in 0..255 : CmdOfByte(b) \in CmdVariants
ASSUME \A b \in 0..20 : CmdValue(CmdOfByte(b)) = b
ASSUME \A b \in 21..255 : CmdOfByte(b) = "Unknown"
ASSUME \A x \in CmdVariants \ {"Unknown"} : CmdOfByte(CmdValue(x)) = x
ASSUME Cardinality(CmdVariants) = 22
ASSUME \A b \in 0..255 : TypeOfByte(b) = (IF b \in {0, 5, 6, 126, 127} THEN MsgTypeName[b] ELSE "Invalid")
ASSUME \A b \in {0, 5, 6, 126, 127} : MsgTypeValue(TypeOfByte(b)) = b
ASSUME \A b \in 0..5 : CcOfByte(b) = CcName[b + 1]
ASSUME CmdValue("QueryHop") = 15 /\ CmdValue("GetNetworkID") = 14 /\ CmdValue("SetEndpointID") = 1
        /\ CmdValue("QuerySupportedInterfaces") = 20 /\ CmdValue("ResolveUUID") = 16
=============================================================================
