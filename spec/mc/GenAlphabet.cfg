SPECIFICATION GSpec
CONSTANT O = {}
CONSTANT CtxIds = {1}
CONSTANT Cfg <- CfgDef
CONSTANT Packets <- PacketsDef
CONSTANT EidVals = {0, 2, 7}
CONSTANT UuidVals <- UuidValsDef
CONSTANT Depth = 0
INVARIANT Emit
CHECK_DEADLOCK FALSE
