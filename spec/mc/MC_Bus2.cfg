SPECIFICATION Spec
CONSTANT O = {}
CONSTANT Addr <- AddrDef
CONSTANT Eid <- EidDef
CONSTANT BoAddr = 17
CONSTANT Bursts <- BurstsDef
CONSTANT MaxFaults = 2
CONSTANT MaxTries = 3
CONSTANT PecCoversDst = TRUE
INVARIANT NoCrossAct
INVARIANT EidsStayOwn
INVARIANT ReadBackOk
PROPERTY Terminates
PROPERTY Completes
CHECK_DEADLOCK FALSE
