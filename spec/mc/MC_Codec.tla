------------------------------ MODULE MC_Codec ------------------------------
(***************************************************************************)
(* One-step model of the transmit side: choose an encoder call, encode it  *)
(* with Codec's operational Frame/ReqRest/RespRest/VendorRest, then look   *)
(* at the bytes through the *declarative* views (Layout), the PEC          *)
(* definition (Pec) and the decoder (Codec!Dec, Codec!WellFormed).         *)
(* Every initial state is one call; the invariants are the listed          *)
(* properties C01, C03-C09, C16 as theorems about the transcription.       *)
(* O is the set of deviations switched on: {} for the ideal specification  *)
(* (all invariants must hold), a singleton to reproduce a finding (the     *)
(* corresponding invariant must be violated - selftest).                   *)
(***************************************************************************)
EXTENDS Integers, Sequences, FiniteSets, TLC, Bytes, Codes, Codec, Responder
L == INSTANCE Layout

CONSTANT O

VARIABLE c            \* the call: [op, name, a, src, eid, half, kind]

Addr  == {0, 1, 35, 52, 127}
AddrX == Addr \cup {128, 163, 255}
B     == {0, 1, 127, 128, 255}
Eids  == {0, 1, 86, 254, 255}
Uuids == { Fill(16, 0), [i \in 1..16 |-> i - 1], Fill(16, 255) }
E1 == << 0, 0, 0, 0 >>
E2 == << 3, 255, 1, 127 >>

ReqArgs(n, d) ==
    CASE n = "set_endpoint_id" -> [dst : {d}, operation : 0..3, eid : Eids]
      [] n = "get_mctp_version_support" -> [dst : {d}, query : {255, 0, 1, 2, 3}]
      [] n = "get_vendor_defined_message_support" -> [dst : {d}, selector : B]
      [] n = "resolve_endpoint_id" -> [dst : {d}, eid : B]
      [] n = "allocate_endpoint_ids" -> [dst : {d}, operation : 0..2, pool_size : B, first_eid : B]
      [] n = "routing_information_update" ->
            [dst : {d}, entries : { << >>, << E1 >>, << E2 >>, << E1, E2 >>, << E2, E1 >>, Fill(7, E2), Fill(8, E1), Fill(9, E2) }]
      [] n = "get_routing_table_entries" -> [dst : {d}, handle : B]
      [] n = "query_hop" -> [dst : {d}, eid : B, msg_type : {0, 5, 6, 126, 127, 255}]
      [] n = "resolve_uuid" -> [dst : {d}, uuid : Uuids, handle : B]
      [] OTHER -> [dst : {d}]

RespArgs(n, d) ==
    CASE n = "set_endpoint_id" -> [dst : {d}, cc : 0..5, assignment : 0..1, allocation : 0..2]
      [] n = "get_endpoint_id" -> [dst : {d}, cc : 0..5, endpoint_type : 0..1, id_type : 0..3, fairness : 0..1]
      [] n = "get_endpoint_uuid" -> [dst : {d}, cc : 0..5, uuid : Uuids]
      [] n = "get_mctp_version_support" -> [dst : {d}, cc : 0..5]
      [] n = "get_message_type_suport" ->
            [dst : {d}, cc : 0..5, types : { << >>, << 126 >>, << 5, 6, 126, 127 >>, Fill(30, 5), Fill(31, 6) }]
      [] n = "get_vendor_defined_message_support" ->
            [dst : {d}, cc : 0..5, selector : {0, 1, 255},
             vid : { << >>, << 0, 18, 52 >>, << 1, 0, 0, 1, 157 >>, << 0, 18, 52, 0, 171 >>, << 1, 1, 2, 3, 4, 5, 6 >> }]

MsgLens == {0, 1, 3, 243, 244, 245, 246, 247, 248, 249, 250}
VendorArgs(d) == [dst : {d}, format : {0, 1, 2, 255},
                  data : { << 0, 0, 18, 52 >>, << 255, 255, 255, 255 >>, << 1, 2, 3, 4 >> },
                  num : {0}, msg : {Fill(k, 17) : k \in MsgLens} \cup {<< 165, 0, 255 >>}]
GenArgs(d) == [dst : {d}, has_hdr : {1}, hdr : { << >>, << 1, 2 >> }, data : {Fill(k, 34) : k \in MsgLens}]

None == [op |-> "none"]
Init == c = None

(* two steps, so that TLC's workers share the call space: first a group    *)
(* (operation, encoder, source address), then the rest of the call         *)
Group(o, n, s) == [op |-> "group", gop |-> o, name |-> n, src |-> s]
PickGroup ==
    /\ c = None
    /\ \/ \E n \in ReqNames, s \in Addr : c' = Group("enc_req", n, s)
       \/ \E n \in RespNames, s \in {35, 127} : c' = Group("enc_resp", n, s)
       \/ \E s \in Addr : c' = Group("enc_vendor", "", s)
       \/ \E k \in DOMAIN GenType : c' = Group("enc_gen", k, 35)

PickCall ==
    /\ c.op = "group"
    /\ \/ c.gop = "enc_req" /\ \E d \in AddrX : \E a \in ReqArgs(c.name, d) :
          c' = [op |-> "enc_req", name |-> c.name, a |-> a, src |-> c.src, eid |-> 0, half |-> "req", kind |-> ""]
       \/ c.gop = "enc_resp" /\ \E d \in {0, 52, 128}, e \in Eids : \E a \in RespArgs(c.name, d) :
          c' = [op |-> "enc_resp", name |-> c.name, a |-> a, src |-> c.src, eid |-> e, half |-> "resp", kind |-> ""]
       \/ c.gop = "enc_vendor" /\ \E d \in AddrX : \E a \in VendorArgs(d) :
          c' = [op |-> "enc_vendor", name |-> "", a |-> a, src |-> c.src, eid |-> 0, half |-> "req", kind |-> ""]
       \/ c.gop = "enc_gen" /\ \E d \in {52, 163}, h \in {"req", "resp"} : \E a \in GenArgs(d) :
          c' = [op |-> "enc_gen", name |-> "", a |-> a, src |-> c.src, eid |-> 0, half |-> h, kind |-> c.name]

Next == PickGroup \/ PickCall
Spec == Init /\ [][Next]_c

(* ---- the call's meaning, from Codec ---- *)
Refused == CASE c.op = "enc_req"  -> ReqRefused(c.name, c.a)
             [] c.op = "enc_resp" -> RespRefused(c.name, c.a)
             [] c.op = "enc_vendor" -> VendorRefused(c.a)
             [] OTHER -> FALSE
Type == CASE c.op \in {"enc_req", "enc_resp"} -> MT_CONTROL
          [] c.op = "enc_vendor" -> VendorType(c.a)
          [] OTHER -> GenType[c.kind]
Rest == CASE c.op = "enc_req"  -> ReqRest(c.name, c.a)
          [] c.op = "enc_resp" -> RespRest(c.name, c.a, c.eid)
          [] c.op = "enc_vendor" -> VendorRest(c.a)
          [] OTHER -> GenRest(c.a)
Payload == CASE c.op = "enc_req"  -> ReqData(c.name, c.a)
             [] c.op = "enc_resp" -> RespFields(c.name, c.a, c.eid)
             [] OTHER -> Rest
Lo == CASE c.op = "enc_req" -> 11 [] c.op = "enc_resp" -> 12 [] OTHER -> 9
Cc == IF c.op = "enc_resp" THEN c.a.cc ELSE 0
Encodes == ~Refused /\ Fits(Rest)
Pkt == Frame(c.a.dst, c.src, Type, Rest)
Decodable == Encodes /\ ~(c.op = "enc_gen" /\ c.kind = "control")   \* the generic control writer takes arbitrary bodies

(* the outcome of the shared packet writer for this call under O *)
Writer == WriterAsIs(TotalLen(Rest), O)

(* ---- properties ---- *)
InvC01P(p) == Decodable =>
            LET d == Dec(p, O) IN
            IF Cc = 0 THEN /\ d.kind = "ok" /\ d.type = Type /\ d.lo = Lo /\ d.hi = Len(p) - 1
                           /\ Slice0(p, d.lo, d.hi) = Payload
                      ELSE d.kind = "err" /\ d.type = MT_CONTROL /\ d.err = "Unsuccessful" /\ d.cc = Cc
InvC01 == c.op \notin {"none", "group"} => InvC01P(Pkt)

InvC03P(p) == Encodes => /\ PecOf(p) = 0
                     /\ p[Len(p)] = PecOf(SubSeq(p, 1, Len(p) - 1))
InvC03 == c.op \notin {"none", "group"} => InvC03P(Pkt)

InvC04P(p) == (~Refused => (Writer.kind = "ok") = Fits(Rest)) /\
          ((Encodes /\ c.a.dst < 128 /\ c.src < 128) =>
            /\ L!GetAll("smbus", SubSeq(p, 1, 4)) = [dest_read_write |-> 0, dest_slave_addr |-> c.a.dst, command_code |-> 15,
                                        byte_count |-> Len(p) - 4, source_read_write |-> 1,
                                        source_slave_addr |-> c.src]
            /\ Writer.count = Len(p) - 4
            /\ Len(p) - 4 = Len(SubSeq(p, 4, Len(p) - 1))     \* bytes between the count and the PEC
            /\ \A k \in 3..Len(p) : GetLengthOf(SubSeq(p, 1, k)) = [kind |-> "ok", len |-> Len(p)])
InvC04 == c.op \notin {"none", "group"} => InvC04P(Pkt)

InvC05P(p) == Encodes =>
            /\ L!TransportValid(SubSeq(p, 5, 8), 1)
            /\ L!GetAll("transport", SubSeq(p, 5, 8)) =
                 [hdr_version |-> 1, dest_endpoint_id |-> c.a.dst, source_endpoint_id |-> c.src,
                  som |-> 1, eom |-> 1, pkt_seq |-> 0, to |-> 1, msg_tag |-> 0]
            /\ Bits(p[9], 7, 7) = 0 /\ L!Get("body", << p[9] >>, "msg_type") = Type
            /\ Type = (CASE c.op \in {"enc_req", "enc_resp"} -> 0
                         [] c.op = "enc_vendor" -> (IF c.a.format = 0 THEN 126 ELSE 127)
                         [] OTHER -> [control |-> 0, pci |-> 126, iana |-> 127, spdm |-> 5, secured |-> 6][c.kind])
InvC05 == c.op \notin {"none", "group"} => InvC05P(Pkt)

(* the DSP0236 command each request encoder stands for, by enumeration variant *)
VariantOf == [ set_endpoint_id |-> "SetEndpointID", get_endpoint_id |-> "GetEndpointID",
               get_endpoint_uuid |-> "GetEndpointUUID", get_mctp_version_support |-> "GetMCTPVersionSupport",
               get_message_type_suport |-> "GetMessageTypeSupport",
               get_vendor_defined_message_support |-> "GetVendorDefinedMessageSupport",
               resolve_endpoint_id |-> "ResolveEndpointID", allocate_endpoint_ids |-> "AllocateEndpointIDs",
               routing_information_update |-> "RoutingInformationUpdate",
               get_routing_table_entries |-> "GetRoutingTableEntries",
               prepare_for_endpoint_discovery |-> "PrepareForEndpointDiscovery",
               endpoint_discovery |-> "EndpointDiscovery", discovery_notify |-> "DiscoveryNotify",
               get_network_id |-> "GetNetworkID", query_hop |-> "QueryHop", resolve_uuid |-> "ResolveUUID",
               query_rate_limit |-> "QueryRateLimit" ]

AsIsCmd == IF c.name = "query_hop" /\ "QUERYHOP_CODE" \in O THEN 14 ELSE ReqCmd[c.name]
InvC06P(p) == (c.op = "enc_req" /\ Encodes) =>
            /\ L!GetAll("control", SubSeq(p, 10, 11)) =
                 [rq |-> 1, d |-> 0, instance_id |-> 0, command_code |-> CmdValue(VariantOf[c.name])]
            /\ Bits(p[10], 5, 5) = 0
            /\ AsIsCmd = CmdValue(VariantOf[c.name])
            /\ SubSeq(p, 12, Len(p) - 1) = ReqData(c.name, c.a)
            /\ Len(ReqData(c.name, c.a)) =
                 (CASE c.name = "routing_information_update" -> 1 + 4 * Len(c.a.entries)
                    [] c.name = "resolve_uuid" -> 17
                    [] c.name = "allocate_endpoint_ids" -> 3
                    [] c.name \in {"set_endpoint_id", "query_hop"} -> 2
                    [] c.name \in {"get_mctp_version_support", "get_vendor_defined_message_support",
                                   "resolve_endpoint_id", "get_routing_table_entries"} -> 1
                    [] OTHER -> 0)
            /\ (FixedReqLen(ReqCmd[c.name]) # 0 => Len(ReqData(c.name, c.a)) = FixedReqLen(ReqCmd[c.name]))
InvC06 == c.op \notin {"none", "group"} => InvC06P(Pkt)

InvC07P(p) == (c.op = "enc_resp" /\ Encodes) =>
            /\ L!GetAll("control", SubSeq(p, 10, 11)) =
                 [rq |-> 0, d |-> 0, instance_id |-> 0, command_code |-> CmdValue(VariantOf[c.name])]
            /\ p[12] = c.a.cc
            /\ (c.a.cc = 0 =>
                 /\ (FixedRespLen(RespCmd[c.name]) # 0 => Len(p) - 13 = FixedRespLen(RespCmd[c.name]))
                 /\ (c.name = "set_endpoint_id" =>
                       /\ Bits(p[13], 5, 4) = c.a.assignment /\ Bits(p[13], 1, 0) = c.a.allocation
                       /\ Bits(p[13], 7, 6) = 0 /\ Bits(p[13], 3, 2) = 0
                       /\ p[14] = c.eid /\ p[15] = 0 /\ Len(p) = 16)
                 /\ (c.name = "get_endpoint_id" =>
                       /\ p[13] = c.eid /\ Bits(p[14], 5, 4) = c.a.endpoint_type
                       /\ Bits(p[14], 1, 0) = c.a.id_type /\ p[15] = c.a.fairness /\ Len(p) = 16)
                 /\ (c.name = "get_endpoint_uuid" => SubSeq(p, 13, 28) = c.a.uuid /\ Len(p) = 29)
                 /\ (c.name = "get_mctp_version_support" => SubSeq(p, 13, Len(p) - 1) = << 1, 241, 243, 241, 0 >>)
                 /\ (c.name = "get_message_type_suport" =>
                       p[13] = Len(c.a.types) /\ SubSeq(p, 14, Len(p) - 1) = c.a.types)
                 /\ (c.name = "get_vendor_defined_message_support" =>
                       p[13] = c.a.selector /\ SubSeq(p, 14, Len(p) - 1) = c.a.vid))
InvC07 == c.op \notin {"none", "group"} => InvC07P(Pkt)

InvC08P(p) == /\ (c.op = "enc_vendor" => (Refused <=> c.a.format \notin {0, 1}))
          /\ (c.op = "enc_vendor" /\ Encodes) =>
                IF c.a.format = 0
                THEN p[9] = 126 /\ p[10] = c.a.data[3] /\ p[11] = c.a.data[4]
                     /\ SubSeq(p, 12, Len(p) - 1) = c.a.msg
                ELSE p[9] = 127 /\ SubSeq(p, 10, 13) = c.a.data /\ SubSeq(p, 14, Len(p) - 1) = c.a.msg
          /\ (c.op = "enc_gen" /\ Encodes) => SubSeq(p, 10, Len(p) - 1) = c.a.hdr \o c.a.data
InvC08 == c.op \notin {"none", "group"} => InvC08P(Pkt)

(* every decodable library packet is well-formed in C09's sense, or carries a non-Success code, or is one *)
(* of the response kinds C09 leaves unclaimed; and the operational decoder is allowed by the relation      *)
InvC09P(p) == Decodable =>
            /\ (Cc = 0 /\ Claimed(p)) => WellFormed(p)
            /\ DecodeAllowed(p, Dec(p, O))
InvC09 == c.op \notin {"none", "group"} => InvC09P(Pkt)

(* frame limit: the largest message that fits has byte count 255 *)
InvC16P(p) == /\ (~Refused /\ Fits(Rest)) => Len(p) <= 259 /\ p[3] = Len(p) - 4
          /\ (~Refused /\ ~Fits(Rest)) => TotalLen(Rest) > 259
          /\ (Refused => \/ (c.op = "enc_req" /\ c.name = "set_endpoint_id" /\ c.a.eid \in {0, 255})
                         \/ (c.op = "enc_req" /\ c.name = "routing_information_update" /\ Len(c.a.entries) >= 8)
                         \/ (c.op = "enc_resp" /\ Len(c.a.types) > 30)
                         \/ (c.op = "enc_vendor" /\ c.a.format \notin {0, 1}))
InvC16 == c.op \notin {"none", "group"} => InvC16P(Pkt)

(* vacuity guards, checked as ASSUMEs on the call space *)
ASSUME \E n \in ReqNames : \E a \in ReqArgs(n, 0) : ReqRefused(n, a)
ASSUME \E a \in VendorArgs(0) : ~VendorRefused(a) /\ ~Fits(VendorRest(a))
ASSUME \E a \in VendorArgs(0) : ~VendorRefused(a) /\ TotalLen(VendorRest(a)) = 259
=============================================================================
