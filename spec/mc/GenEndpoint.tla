----------------------------- MODULE GenEndpoint -----------------------------
(***************************************************************************)
(* spec -> impl: behaviours of the Endpoint state machine, printed as      *)
(* scenarios for the harness.  A history variable records the command      *)
(* that corresponds to each action taken; when a behaviour reaches Depth   *)
(* steps it is printed as one JSON array ("SCN ..." line).  Run            *)
(* exhaustively (all behaviours of length Depth) or with -simulate.  The   *)
(* harness executes the commands on the real library; the recorded trace   *)
(* is then validated by Trace.tla, which re-derives every expected         *)
(* outcome and the state after every step.                                 *)
(***************************************************************************)
EXTENDS MC_Endpoint, Json, SequencesExt

CONSTANT Depth
VARIABLES h, done

NewCmd(c) == [op |-> "new", ctx |-> c, addr |-> Cfg[c].addr, msg_types |-> Cfg[c].mts, vendor_ids |-> Cfg[c].vids]
RECURSIVE NewCmds(_)
NewCmds(S) == IF S = {} THEN << >> ELSE LET c == CHOOSE x \in S : TRUE IN << NewCmd(c) >> \o NewCmds(S \ {c})

CmdOf(o, k) ==
    CASE o.op = "process" -> [op |-> "process", ctx |-> o.c, p |-> o.p, rbuf_len |-> 64 + (k % 3), poison |-> (k * 37 + 90) % 256]
      [] o.op = "decode"  -> [op |-> "decode", ctx |-> o.c, p |-> o.p]
      [] o.op = "enc_resp" -> [op |-> "enc_resp", ctx |-> o.c, name |-> o.arg, args |-> EncArgs(o.arg),
                               buf_len |-> 24 + (k % 5), poison |-> (k * 13 + 5) % 256]
      [] o.op = "get_length" -> [op |-> "get_length", ctx |-> o.c, p |-> o.p]
      [] o.op = "set_eid_req"  -> [op |-> "set_eid", ctx |-> o.c, half |-> "req", eid |-> o.arg]
      [] o.op = "set_eid_resp" -> [op |-> "set_eid", ctx |-> o.c, half |-> "resp", eid |-> o.arg]
      [] o.op = "set_uuid" -> [op |-> "set_uuid", ctx |-> o.c, uuid |-> o.arg]

Prologue == NewCmds(CtxIds)
GInit == Init /\ h = Prologue /\ done = FALSE
Step   == Len(h) < Len(Prologue) + Depth /\ Next /\ h' = Append(h, CmdOf(out', Len(h))) /\ UNCHANGED done
(* a single successor at the end of a behaviour, so that -simulate (which     *)
(* evaluates invariants on every candidate successor) prints each behaviour   *)
(* exactly once                                                               *)
Finish == Len(h) = Len(Prologue) + Depth /\ ~done /\ done' = TRUE /\ UNCHANGED << vars, h >>
GNext  == Step \/ Finish
GSpec  == GInit /\ [][GNext]_<< vars, h, done >>

(* the model's input alphabet, for the harness's transition tour: every (abstract state, action)  *)
(* pair of this bounded model is then driven through the real code at least once              *)
ASSUME PrintT("ALPHA " \o ToJson([ cfg |-> [c \in CtxIds |-> Cfg[c]], ctxs |-> SetToSeq(CtxIds),
                                   packets |-> SetToSeq(Packets), eids |-> SetToSeq(EidVals),
                                   uuids |-> SetToSeq(UuidVals) ]))

Emit == done => PrintT("SCN " \o ToJson(h))
=============================================================================
