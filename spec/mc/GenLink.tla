------------------------------- MODULE GenLink -------------------------------
(***************************************************************************)
(* spec -> impl for the Link model: every behaviour of the bounded bus     *)
(* (bring-up script, faults, retries, late duplicates) is printed as the   *)
(* sequence of library calls its two parties make, with the real bytes:    *)
(*   endpoint (context 8):  get_length on the three-byte prefix, then      *)
(*                          process_packet on the bytes read;              *)
(*   bus owner (context 7): decode_packet (and process_packet) on every    *)
(*                          response that arrives.                         *)
(* The harness executes them on two real contexts configured like the      *)
(* model; Trace.tla validates the recorded trace, i.e. checks that the      *)
(* real endpoint produced, step by step, the responses and state the       *)
(* model's endpoint produced in that behaviour.                            *)
(***************************************************************************)
EXTENDS MC_Link, Json

VARIABLES h, fin

NewEp == [op |-> "new", ctx |-> 8, addr |-> EpAddr, msg_types |-> Mts, vendor_ids |-> Vids]
NewBo == [op |-> "new", ctx |-> 7, addr |-> BoAddr, msg_types |-> << >>,
          vendor_ids |-> << [format |-> 0, data |-> << 0, 0, 0, 1 >>, num |-> << 0, 0 >>] >>]
Prologue == << NewBo, NewEp, [op |-> "set_uuid", ctx |-> 8, uuid |-> Uuid] >>

Calls ==
    IF pc["ep"] = "probe" /\ pc'["ep"] = "proc" /\ Len(rx) >= 1
    THEN << [op |-> "get_length", ctx |-> 8, p |-> SubSeq(rx, 1, Min(3, Len(rx)))] >>
    ELSE IF pc["ep"] = "proc" /\ pc'["ep"] = "ep" /\ rx # << >>
    THEN << [op |-> "process", ctx |-> 8, p |-> rx, rbuf_len |-> 64, poison |-> (Len(h) * 41 + 7) % 256] >>
    ELSE IF toBo # << >> /\ toBo' = << >>
    THEN << [op |-> "decode", ctx |-> 7, p |-> toBo],
            [op |-> "process", ctx |-> 7, p |-> toBo, rbuf_len |-> 64, poison |-> 90] >>
    ELSE << >>

GInit == Init /\ h = Prologue /\ fin = FALSE
GStep == ~fin /\ Next /\ h' = h \o Calls /\ UNCHANGED fin
(* one extra step at the end of a behaviour so that it is printed exactly once (also under -simulate) *)
Finish == ~fin /\ (done \/ gaveUp) /\ toBo = << >> /\ toEp = << >> /\ rx = << >> /\ dup = << >>
          /\ fin' = TRUE /\ UNCHANGED << vars, h >>
GNext == GStep \/ Finish
GSpec == GInit /\ [][GNext]_<< vars, h, fin >>

Emit == fin => PrintT("SCN " \o ToJson(h))
=============================================================================
