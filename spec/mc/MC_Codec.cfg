SPECIFICATION Spec
CONSTANT O = {}
INVARIANT InvC01
INVARIANT InvC03
INVARIANT InvC04
INVARIANT InvC05
INVARIANT InvC06
INVARIANT InvC07
INVARIANT InvC08
INVARIANT InvC09
INVARIANT InvC16
CHECK_DEADLOCK FALSE
