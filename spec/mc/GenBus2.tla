------------------------------- MODULE GenBus2 -------------------------------
(***************************************************************************)
(* spec -> impl for Bus2: every behaviour of the two-endpoint segment      *)
(* (assignments, read-backs, drops, one burst anywhere in a packet, the    *)
(* re-routing that a corrupted address byte causes) is printed as the      *)
(* library calls of its three parties on real bytes; the harness executes  *)
(* them on three real contexts and Trace.tla validates the recorded trace. *)
(* Only meaningful with PecCoversDst = TRUE (the real wire format).        *)
(***************************************************************************)
EXTENDS MC_Bus2, Json

VARIABLES h, fin

CtxOf(e) == 7 + e                       \* endpoint 1 -> context 8, endpoint 2 -> context 9; bus owner -> 7
NewEp(e) == [op |-> "new", ctx |-> CtxOf(e), addr |-> Addr[e], msg_types |-> << >>, vendor_ids |-> Vid]
NewBo == [op |-> "new", ctx |-> 7, addr |-> BoAddr, msg_types |-> << >>, vendor_ids |-> Vid]
Prologue == << NewBo, NewEp(1), NewEp(2) >>

Calls ==
    IF toEp # << >> /\ toEp' = << >> /\ faults' = faults /\ Route(toEp) \in Eps
    THEN << [op |-> "get_length", ctx |-> CtxOf(Route(toEp)), p |-> SubSeq(toEp, 1, Min(3, Len(toEp)))] >> \o
         (IF Len(toEp) >= 3 /\ GetLengthOf(toEp).kind = "ok"
          THEN << [op |-> "process", ctx |-> CtxOf(Route(toEp)),
                   p |-> SubSeq(toEp, 1, Min(GetLengthOf(toEp).len, Len(toEp))),
                   rbuf_len |-> 64, poison |-> (Len(h) * 23 + 11) % 256] >>
          ELSE << >>)
    ELSE IF toBo # << >> /\ toBo' = << >>
    THEN << [op |-> "decode", ctx |-> 7, p |-> toBo],
            [op |-> "process", ctx |-> 7, p |-> toBo, rbuf_len |-> 64, poison |-> 90] >>
    ELSE << >>

GInit == Init /\ h = Prologue /\ fin = FALSE
GStep == ~fin /\ Next /\ h' = h \o Calls /\ UNCHANGED fin
Finish == ~fin /\ (done \/ gaveUp) /\ toBo = << >> /\ toEp = << >>
          /\ fin' = TRUE /\ UNCHANGED << vars, h >>
GNext == GStep \/ Finish
GSpec == GInit /\ [][GNext]_<< vars, h, fin >>

Emit == fin => PrintT("SCN " \o ToJson(h))
=============================================================================
