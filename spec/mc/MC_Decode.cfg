SPECIFICATION Spec
CONSTANT O = {}
CONSTANT Vals = {0, 1, 2, 3, 4, 5, 6, 7, 8, 9, 10, 15, 16, 17, 20, 21, 31, 32, 64, 126, 127, 128, 129, 133, 192, 200, 254, 255}
INVARIANT InvC09
INVARIANT InvC02
INVARIANT InvC10
INVARIANT InvC17
INVARIANT InvBase
CHECK_DEADLOCK FALSE
