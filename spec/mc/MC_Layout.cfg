SPECIFICATION Spec
CONSTANT Others = {165}
INVARIANT InvC18
INVARIANT InvValid
CHECK_DEADLOCK FALSE
