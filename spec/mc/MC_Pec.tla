------------------------------- MODULE MC_Pec -------------------------------
EXTENDS PecBurst, TLC
P == INSTANCE Pec

(* checked once, before the state space is explored *)
ASSUME KnownAnswersHold == P!KnownAnswers
ASSUME TableLitIsTable == \A x \in 0..255 : P!TableLit[x + 1] = P!FeedByte(0, x)
ASSUME TableIsLinear == \A r \in 0..255 : \A b \in 0..255 : P!FeedByte(r, b) = P!Table[r ^^ b]
(* "last byte = PEC of the rest"  <=>  "CRC of the whole packet is zero" *)
ASSUME ZeroIffEqual == \A r \in 0..255 : \A c \in 0..255 : (P!FeedByte(r, c) = 0) <=> (r = c)
(* the table is a bijection: no byte of a packet can be changed alone *)
ASSUME TableBijective == \A x \in 0..255 : \A y \in 0..255 : P!Table[x] = P!Table[y] => x = y
=============================================================================
