SPECIFICATION GSpec
CONSTANT O = {}
CONSTANT Addr <- AddrDef
CONSTANT Eid <- EidDef
CONSTANT BoAddr = 17
CONSTANT Bursts <- BurstsDef
CONSTANT MaxFaults = 2
CONSTANT MaxTries = 3
CONSTANT PecCoversDst = TRUE
CHECK_DEADLOCK FALSE
INVARIANT Emit
