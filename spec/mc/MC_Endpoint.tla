----------------------------- MODULE MC_Endpoint -----------------------------
(***************************************************************************)
(* Bounded instance of Endpoint: two contexts with different addresses and *)
(* configurations, an input alphabet of real byte strings built by         *)
(* Codec!Frame - valid / corrupted / truncated assignments with EIDs       *)
(* {01, 02, FE} and reserved {00, FF}, Set Discovered, unsupported         *)
(* operations, the five queries with assorted instance ids, responses      *)
(* (one carrying an EID), vendor / SPDM traffic - and the accessors.       *)
(* The state space is finite, so every history of this alphabet, of any    *)
(* length, is covered.                                                     *)
(***************************************************************************)
EXTENDS Endpoint

Req(dst, src, iid, cmd, data) == Frame(dst, src, MT_CONTROL, << 128 + iid, cmd >> \o data)
Rsp(dst, src, cmd, data)      == Frame(dst, src, MT_CONTROL, << 0, cmd >> \o data)
Corrupt(p, i, x) == Patch(p, i, (p[i] + x) % 256)

Set(op, eid, iid) == Req(35, 17, iid, 1, << op, eid >>)

PacketsDef ==
    { Set(op, eid, 0) : op \in {0, 1}, eid \in {1, 2, 254} }
    \cup { Set(0, 0, 0), Set(1, 255, 0), Set(3, 2, 0), Set(3, 9, 4), Set(2, 2, 0), Set(77, 2, 0), Set(0, 1, 21) }
    \cup { Corrupt(Set(0, 2, 0), 13, 4), Corrupt(Set(1, 254, 0), 14, 1), Corrupt(Set(0, 2, 0), 5, 16),
           SubSeq(Set(0, 2, 0), 1, 13), Req(35, 17, 0, 1, << 0, 2, 0 >>), Req(35, 17, 0, 1, << 0 >>) }
    \cup { Req(35, 17, 9, 2, << >>), Req(35, 18, 0, 3, << >>), Req(35, 17, 31, 4, << 255 >>), Req(35, 17, 1, 5, << >>),
           Req(35, 17, 2, 6, << 0 >>), Req(35, 17, 3, 6, << 1 >>), Req(35, 17, 0, 6, << 2 >>), Req(35, 17, 0, 6, << 255 >>),
           Req(35, 17, 0, 7, << 9 >>), Req(35, 17, 0, 0, << >>), Req(35, 17, 0, 200, << 1, 2 >>),
           Corrupt(Req(35, 17, 9, 2, << >>), 12, 128) }
    \cup { Rsp(35, 17, 1, << 0, 0, 9, 0 >>), Rsp(35, 17, 2, << 0, 9, 0, 0 >>), Rsp(35, 17, 3, << 2 >>),
           Rsp(35, 17, 3, << 0 >> \o Fill(16, 170)),
           (* vendor support / message type / version answers from a peer, selectors around our own range *)
           Rsp(35, 17, 6, << 0, 1, 0, 18, 52, 0, 171 >>), Rsp(35, 17, 6, << 0, 2, 0, 18, 52, 0, 171 >>),
           Rsp(35, 17, 6, << 0, 255, 1, 17, 34, 51, 68, 85, 102 >>), Rsp(35, 17, 5, << 0, 1, 126 >>),
           Rsp(35, 17, 4, << 0, 1, 241, 243, 241, 0 >>) }
    \cup { Frame(35, 17, MT_PCI, << 18, 52, 1 >>), Frame(35, 17, MT_IANA, << 0, 0, 1, 157 >>),
           Frame(35, 17, MT_SPDM, << 16, 132 >>), Corrupt(Frame(35, 17, MT_SECURED, << 1, 2 >>), 10, 8) }

(* a core alphabet for exhaustive behaviours of length 3 (spec -> impl): order-dependent histories such as   *)
(* Set A, Set B, Set A; assignment, accessor, assignment; query after query (hidden scratch state)          *)
PacketsCore ==
    { Set(0, 1, 0), Set(1, 2, 0), Set(0, 2, 3), Set(3, 2, 0), Corrupt(Set(0, 2, 0), 13, 4),
      Req(35, 17, 9, 2, << >>), Req(35, 17, 2, 6, << 0 >>), Req(35, 17, 3, 6, << 1 >>),
      Rsp(35, 17, 1, << 0, 0, 9, 0 >>) }

UuidValsDef == { Fill(16, 165) }

CfgDef == (1 :> [addr |-> 35, mts |-> << 126, 5 >>,
                 vids |-> << [format |-> 0, data |-> << 0, 0, 18, 52 >>, num |-> << 0, 171 >>],
                             [format |-> 1, data |-> << 17, 34, 51, 68 >>, num |-> << 85, 102 >>] >>])
       @@ (2 :> [addr |-> 127, mts |-> << >>,
                 vids |-> << [format |-> 1, data |-> << 0, 0, 1, 157 >>, num |-> << 0, 0 >>] >>])
=============================================================================
