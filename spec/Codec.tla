------------------------------- MODULE Codec -------------------------------
(***************************************************************************)
(* The MCTP-over-SMBus wire format of the library's API, transcribed from  *)
(* DSP0236 / DSP0237 and the property statements - not from the Rust.      *)
(*                                                                         *)
(*   - encoders: what each public encoder call must put on the wire        *)
(*   - decoder, declarative: WellFormed / Span / Truthful (C09's sentence) *)
(*   - decoder, operational: Dec(p, O) follows the code's order of checks; *)
(*     O is the set of open deviations (Findings.tla).  With O = {} it is  *)
(*     one deterministic refinement of the declarative relation (checked   *)
(*     by TLC in MC_Decode); with a deviation in O it reproduces, exactly, *)
(*     what today's code does on the inputs that deviation owns.           *)
(*                                                                         *)
(* Offsets in results are 0-based and half-open: payload = p[lo, hi).      *)
(***************************************************************************)
EXTENDS Naturals, Sequences, Bytes, Codes
LOCAL INSTANCE Pec
LOCAL INSTANCE Layout

PecOf(s)  == PEC(s)
PecGood(p) == PecOk(p)

(* ------------------------------ framing ------------------------------ *)
MaxTotal == 259                       \* byte count 255 + 4

SmbusHdr(dst, src, total) == << (dst % 128) * 2, 15, total - 4, (src % 128) * 2 + 1 >>
TransportHdr(dst, src)    == << 1, dst, src, 200 >>     \* ver 1; SOM EOM seq0 TO tag0

(* rest = everything between the message-type byte and the PEC *)
TotalLen(rest) == 10 + Len(rest)
Fits(rest)     == TotalLen(rest) <= MaxTotal

Front(dst, src, type, rest) ==
    SmbusHdr(dst, src, TotalLen(rest)) \o TransportHdr(dst, src) \o <<type>> \o rest
Frame(dst, src, type, rest) ==
    LET f == Front(dst, src, type, rest) IN f \o << PEC(f) >>

CtrlHdr(rq, d, iid, cmd) == << rq * 128 + d * 64 + iid, cmd >>

(* --------------------------- request encoders --------------------------- *)
ReqCmd == [ set_endpoint_id |-> 1, get_endpoint_id |-> 2, get_endpoint_uuid |-> 3,
            get_mctp_version_support |-> 4, get_message_type_suport |-> 5,
            get_vendor_defined_message_support |-> 6, resolve_endpoint_id |-> 7,
            allocate_endpoint_ids |-> 8, routing_information_update |-> 9,
            get_routing_table_entries |-> 10, prepare_for_endpoint_discovery |-> 11,
            endpoint_discovery |-> 12, discovery_notify |-> 13, get_network_id |-> 14,
            query_hop |-> 15, resolve_uuid |-> 16, query_rate_limit |-> 17 ]
ReqNames == DOMAIN ReqCmd

ReqData(name, a) ==
    CASE name = "set_endpoint_id"                    -> << a.operation, a.eid >>
      [] name = "get_mctp_version_support"           -> << a.query >>
      [] name = "get_vendor_defined_message_support" -> << a.selector >>
      [] name = "resolve_endpoint_id"                -> << a.eid >>
      [] name = "allocate_endpoint_ids"              -> << a.operation, a.pool_size, a.first_eid >>
      [] name = "routing_information_update"         -> << Len(a.entries) >> \o Flatten(a.entries)
      [] name = "get_routing_table_entries"          -> << a.handle >>
      [] name = "query_hop"                          -> << a.eid, a.msg_type >>
      [] name = "resolve_uuid"                       -> a.uuid \o << a.handle >>
      [] OTHER                                       -> << >>

ReqRefused(name, a) ==
    \/ name = "set_endpoint_id" /\ a.eid \in {0, 255}
    \/ name = "routing_information_update" /\ Len(a.entries) >= 8

ReqRest(name, a) == CtrlHdr(1, 0, 0, ReqCmd[name]) \o ReqData(name, a)

(* --------------------------- response encoders -------------------------- *)
RespCmd == [ set_endpoint_id |-> 1, get_endpoint_id |-> 2, get_endpoint_uuid |-> 3,
             get_mctp_version_support |-> 4, get_message_type_suport |-> 5,
             get_vendor_defined_message_support |-> 6 ]
RespNames == DOMAIN RespCmd

VersionEntry == << 1, 241, 243, 241, 0 >>          \* count 1, then F1 F3 F1 00 (1.3.1)

(* Success response fields after the completion code; eid = current EID *)
RespFields(name, a, eid) ==
    CASE name = "set_endpoint_id"    -> << a.assignment * 16 + a.allocation, eid, 0 >>
      [] name = "get_endpoint_id"    -> << eid, a.endpoint_type * 16 + a.id_type, a.fairness >>
      [] name = "get_endpoint_uuid"  -> a.uuid
      [] name = "get_mctp_version_support" -> VersionEntry
      [] name = "get_message_type_suport"  -> << Len(a.types) >> \o a.types
      [] name = "get_vendor_defined_message_support" -> << a.selector >> \o a.vid

RespRefused(name, a) == name = "get_message_type_suport" /\ Len(a.types) > 30

RespRest(name, a, eid) == CtrlHdr(0, 0, 0, RespCmd[name]) \o << a.cc >> \o RespFields(name, a, eid)

(* ----------------------- vendor / SPDM encoders ----------------------- *)
(* a.data = the 32-bit identifier as 4 big-endian bytes *)
VendorRefused(a) == a.format \notin {0, 1}
VendorType(a)    == IF a.format = 0 THEN MT_PCI ELSE MT_IANA
VendorRest(a)    == IF a.format = 0 THEN << a.data[3], a.data[4] >> \o a.msg
                                    ELSE a.data \o a.msg

GenType == [ control |-> MT_CONTROL, pci |-> MT_PCI, iana |-> MT_IANA,
             spdm |-> MT_SPDM, secured |-> MT_SECURED ]
GenRest(a) == a.hdr \o a.data

(* ------------------------- decoder, declarative ------------------------- *)
HdrOk(p) == /\ Len(p) >= 9
            /\ TransportValid(SubSeq(p, 5, 8), 1)
            /\ BodyHdrValid(<< p[9] >>)
TypeOf(p) == p[9] % 128
IsCtl(p)  == TypeOf(p) = MT_CONTROL
Rq(p)     == p[10] \div 128
Cmd(p)    == p[11]
Iid(p)    == p[10] % 32
CcByte(p) == p[12]

(* too short to hold the headers (and the PEC) of the message it claims to be *)
TooShort(p) ==
    \/ Len(p) < 10
    \/ HdrOk(p) /\ IsCtl(p) /\ (Len(p) < 12 \/ (Rq(p) = 0 /\ Len(p) < 13))

DataLen(p) == IF Rq(p) = 1 THEN Len(p) - 12 ELSE Len(p) - 13

CtlOk(p) ==
    IF Rq(p) = 1
    THEN FixedReqLen(Cmd(p)) = 0 \/ DataLen(p) = FixedReqLen(Cmd(p))
    ELSE CcByte(p) = 0 /\ (FixedRespLen(Cmd(p)) = 0 \/ DataLen(p) = FixedRespLen(Cmd(p)))

(* the K-variants take k = PecOk(p), computed once per packet by the caller *)
WellFormedK(p, k) == /\ ~TooShort(p) /\ HdrOk(p) /\ k
                     /\ (IsCtl(p) => CtlOk(p))
WellFormed(p) == WellFormedK(p, PecOk(p))

Span(p) == IF IsCtl(p)
           THEN [lo |-> IF Rq(p) = 1 THEN 11 ELSE 12, hi |-> Len(p) - 1]
           ELSE [lo |-> 9, hi |-> Len(p) - 1]

(* inputs on which C09 makes a claim *)
IsUnclaimedResp(p) == HdrOk(p) /\ IsCtl(p) /\ Len(p) >= 12 /\ Rq(p) = 0 /\ Cmd(p) \in RespLenUnclaimed
(* (C09 quantifies over byte strings up to the SMBus maximum length) *)
Claimed(p) == ~TooShort(p) /\ ~IsUnclaimedResp(p) /\ Len(p) <= MaxTotal

(* an error value (type t, error e, completion code c) names a condition    *)
(* that holds of p                                                           *)
TruthfulK(p, t, e, c, k) ==
    /\ t = MT_INVALID => ~HdrOk(p)
    /\ (t # MT_INVALID /\ HdrOk(p)) => t = TypeOf(p)       \* a message type, when named, is the packet's own
    /\ e = "InvalidPEC" => ~k
    /\ e = "InvalidRequestDataLength" =>
          /\ HdrOk(p) /\ IsCtl(p) /\ Len(p) >= 12
          /\ LET fx == IF Rq(p) = 1 THEN FixedReqLen(Cmd(p)) ELSE FixedRespLen(Cmd(p))
             IN  fx # 0 /\ DataLen(p) # fx
    /\ e = "Unsuccessful" =>
          HdrOk(p) /\ IsCtl(p) /\ Len(p) >= 12 /\ Rq(p) = 0 /\ c # 0 /\ CcByte(p) = c
    /\ e = "InvalidControlHeader" => HdrOk(p) /\ IsCtl(p) /\ Len(p) >= 10 /\ Bits(p[10], 5, 5) = 1
    /\ e \in {"InvalidPEC", "InvalidRequestDataLength", "Unsuccessful",
              "InvalidControlHeader", "Unknown", "CtlUnknown"}

(* the decoder's outcome r = [kind, type, lo, hi, err, cc] is one C09 allows *)
Truthful(p, t, e, c) == TruthfulK(p, t, e, c, PecOk(p))

DecodeAllowedK(p, r, k) ==
    IF ~Claimed(p)
    THEN (r.kind = "ok" => k)                           \* C02 still binds
    ELSE IF WellFormedK(p, k)
         THEN r.kind = "ok" /\ r.type = TypeOf(p) /\ r.lo = Span(p).lo /\ r.hi = Span(p).hi
         ELSE r.kind = "err" /\ TruthfulK(p, r.type, r.err, r.cc, k)
DecodeAllowed(p, r) == DecodeAllowedK(p, r, PecOk(p))

(* ------------------------- decoder, operational ------------------------- *)
ROk(t, lo, hi, dv) == [kind |-> "ok",  type |-> t, lo |-> lo, hi |-> hi, err |-> "", cc |-> 0, dev |-> dv]
RErr(t, e, c, dv)  == [kind |-> "err", type |-> t, lo |-> 0, hi |-> 0, err |-> e, cc |-> c, dev |-> dv]
RPanic(d)          == [kind |-> "panic", type |-> 0, lo |-> 0, hi |-> 0, err |-> "", cc |-> 0, dev |-> {d}]

ShortOutcome(O) == IF "SHORT_INPUT" \in O THEN RPanic("SHORT_INPUT") ELSE RErr(MT_INVALID, "Unknown", 0, {})

(* request-length table: 0 = variable; LEN_TABLE_PANIC owns the arms the    *)
(* code leaves unimplemented                                                *)
ReqTablePanics(cmd)  == cmd >= 9
RespTablePanics(cmd) == cmd = 7 \/ cmd >= 10

DecControl(p, O, k) ==
    LET L == Len(p)   M == L - 9 IN
    IF M < 2 THEN ShortOutcome(O)
    ELSE IF Rq(p) = 1 THEN
        IF ReqTablePanics(Cmd(p)) /\ "LEN_TABLE_PANIC" \in O THEN RPanic("LEN_TABLE_PANIC")
        ELSE LET fx == FixedReqLen(Cmd(p)) IN
             IF M < 3 THEN ShortOutcome(O)
             ELSE IF ~k THEN RErr(MT_CONTROL, "InvalidPEC", 0, {})
             ELSE IF fx > 0 /\ L - 12 # fx THEN RErr(MT_CONTROL, "InvalidRequestDataLength", 0, {})
             ELSE ROk(MT_CONTROL, 11, L - 1, {})
    ELSE
        IF M < 3 THEN ShortOutcome(O)
        ELSE IF CcByte(p) # 0 THEN
             IF CcByte(p) <= 5 THEN RErr(MT_CONTROL, "Unsuccessful", CcByte(p), {})
             ELSE IF "CC_UNREACHABLE" \in O THEN RPanic("CC_UNREACHABLE")
             ELSE RErr(MT_CONTROL, "CtlUnknown", 0, {})
        ELSE IF RespTablePanics(Cmd(p)) /\ "LEN_TABLE_PANIC" \in O THEN RPanic("LEN_TABLE_PANIC")
        ELSE LET fx == IF "GETEID_RESP_LEN" \in O THEN LibRespLen(Cmd(p)) ELSE
                       IF Cmd(p) = 2 THEN 3 ELSE LibRespLen(Cmd(p))
                 dv == IF Cmd(p) = 2 /\ "GETEID_RESP_LEN" \in O THEN {"GETEID_RESP_LEN"} ELSE {} IN
             IF M < 4 THEN ShortOutcome(O)
             ELSE IF ~k THEN RErr(MT_CONTROL, "InvalidPEC", 0, {})
             ELSE IF fx > 0 /\ L - 13 # fx THEN RErr(MT_CONTROL, "InvalidRequestDataLength", 0, dv)
             ELSE ROk(MT_CONTROL, 12, L - 1, dv)

DecBody(p, O, k) ==
    LET L == Len(p) IN
    IF L < 8 THEN ShortOutcome(O)
    ELSE IF ~TransportValid(SubSeq(p, 5, 8), 1) THEN RErr(MT_INVALID, "Unknown", 0, {})
    ELSE IF L = 8 THEN ShortOutcome(O)
    ELSE IF ~BodyHdrValid(<< p[9] >>) THEN RErr(MT_INVALID, "Unknown", 0, {})
    ELSE LET t == TypeOf(p) IN
      IF t = MT_CONTROL THEN DecControl(p, O, k)
      ELSE IF ~k THEN RErr(t, "InvalidPEC", 0, {})
      ELSE IF L = 9 THEN ShortOutcome(O)
      ELSE IF t = MT_IANA /\ "IANA_SLICE" \in O THEN
           (IF L = 10 THEN RPanic("IANA_SLICE") ELSE ROk(t, 9, L - 2, {"IANA_SLICE"}))
      ELSE ROk(t, 9, L - 1, {})

(* With SHORT_INPUT closed, every too-short input is rejected up front; the  *)
(* ShortOutcome arms of DecBody are then unreachable.                        *)
DecK(p, O, k) ==
    IF "SHORT_INPUT" \notin O /\ TooShort(p)
    THEN RErr(MT_INVALID, "Unknown", 0, {})
    ELSE DecBody(p, O, k)
Dec(p, O) == DecK(p, O, PecOk(p))

(* ------------------------------ length probe ------------------------------ *)
(* for inputs of at least three bytes; r = [kind, len, type] *)
GetLengthOf(p) == IF p[2] = 15 THEN [kind |-> "ok", len |-> p[3] + 4]
                              ELSE [kind |-> "err", len |-> 0]
=============================================================================
