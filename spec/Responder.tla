------------------------------ MODULE Responder ------------------------------
(***************************************************************************)
(* The request processor as pure operators over a context record           *)
(*   m = [addr, mts, vids, eidReq, eidResp, uuid]                           *)
(* with vids a sequence of [format, data (4 bytes, MSB first), num (2)].    *)
(*                                                                         *)
(* Proc(p, m, O) is the outcome of processing packet p in context m: it is  *)
(* defined through the decoder (C11), answers commands 1-6 from the         *)
(* request's own fields and the configuration (C12-C15) and says what the   *)
(* EID becomes (C13).  O is the set of open deviations; with O = {} this    *)
(* is the ideal processor (a deterministic refinement: don't-care bits are  *)
(* given the values the library uses).                                      *)
(***************************************************************************)
EXTENDS Integers, Sequences, Bytes, Codes, Codec

ZeroUuid == [i \in 1..16 |-> 0]
NewCtx(addr, mts, vids) ==
    [addr |-> addr, mts |-> mts, vids |-> vids, eidReq |-> 0, eidResp |-> 0, uuid |-> ZeroUuid]

VendorField(v) == IF v.format = 0 THEN << 0, v.data[3], v.data[4] >> \o v.num
                                  ELSE << 1 >> \o v.data \o v.num
NextSel(s, n)  == IF s + 1 = n THEN 255 ELSE s + 1

(* fields of an accepted control request (p is known to be one) *)
ReqParam(p, k) == p[11 + k]                    \* k-th data byte, 1-based
ReqSrc(p)      == p[7]                         \* source endpoint id

(* a response travels back to the request's source and carries its instance id *)
RespPkt(p, m, iid, body) == Frame(ReqSrc(p), m.addr, MT_CONTROL, << iid, Cmd(p) >> \o body)

(* does the request fall into the class the processor answers (C12's domain)? *)
SetOps == {0, 1}
Answered(p, m) ==
    LET c == Cmd(p) IN
    \/ c \in 2..5
    \/ c = 1 /\ ReqParam(p, 1) \in {0, 1, 3}
    \/ c = 6 /\ ReqParam(p, 1) < Len(m.vids)

(* completion code and fields of the answer; eid = EID after the step *)
AnswerBody(p, m, eid) ==
    LET c == Cmd(p) IN
    CASE c = 1 -> IF ReqParam(p, 1) \in SetOps THEN << 0, 0, eid, 0 >> ELSE << CC_INVALID_DATA, 0, eid, 0 >>
      [] c = 2 -> << 0, eid, 0, 0 >>
      [] c = 3 -> << 0 >> \o m.uuid
      [] c = 4 -> << 0 >> \o VersionEntry
      [] c = 5 -> << 0, Len(m.mts) >> \o m.mts
      [] c = 6 -> << 0, NextSel(ReqParam(p, 1), Len(m.vids)) >> \o VendorField(m.vids[ReqParam(p, 1) + 1])

(* the EID after processing an accepted control request *)
EidAfter(p, m) == IF Cmd(p) = 1 /\ ReqParam(p, 1) \in SetOps THEN ReqParam(p, 2) ELSE m.eidResp
Assigns(p)     == Cmd(p) = 1 /\ ReqParam(p, 1) \in SetOps

POut(d, has, resp, neweid, dv) ==
    [kind |-> d.kind, type |-> d.type, lo |-> d.lo, hi |-> d.hi, err |-> d.err, cc |-> d.cc,
     has |-> has, resp |-> resp, neweid |-> neweid, dev |-> d.dev \cup dv]
PPanic(d) == POut(RPanic(d), FALSE, << >>, -1, {})
Pass(d)   == POut(d, FALSE, << >>, -1, {})

(* TLC re-evaluates a LET-bound name at every use but evaluates an operator   *)
(* argument once, so shared sub-results are passed down as arguments.        *)
ProcAnswer(p, m, O, d, eid) ==
    POut(d, TRUE,
         RespPkt(p, m, IF "IID_ZERO" \in O THEN 0 ELSE Iid(p), AnswerBody(p, m, eid)),
         IF Assigns(p) THEN eid ELSE -1,
         IF "IID_ZERO" \in O /\ Iid(p) # 0 THEN {"IID_ZERO"} ELSE {})

ProcD(p, m, O, d) ==
    IF d.kind # "ok" THEN Pass(d)
    ELSE IF d.type \in {MT_SPDM, MT_SECURED} THEN
         (IF "PROCESS_SPDM" \in O THEN Pass(RErr(MT_INVALID, "Unknown", 0, {"PROCESS_SPDM"})) ELSE Pass(d))
    ELSE IF d.type # MT_CONTROL THEN Pass(d)
    ELSE IF Len(p) % 256 < 4 /\ "BYTECOUNT_WRAP" \in O THEN PPanic("BYTECOUNT_WRAP")
    ELSE IF Rq(p) = 0 THEN Pass(d)
    ELSE IF Cmd(p) = 0 \/ Cmd(p) > 6 THEN
           (IF "UNSUPPORTED_CMD" \in O THEN PPanic("UNSUPPORTED_CMD") ELSE Pass(d))
    ELSE IF Cmd(p) = 1 /\ ReqParam(p, 1) \notin {0, 1, 3} THEN
           (IF "SETEID_OP" \in O THEN PPanic("SETEID_OP") ELSE Pass(d))
    ELSE IF Cmd(p) = 6 /\ ReqParam(p, 1) >= Len(m.vids) THEN
           (IF "SELECTOR_RANGE" \in O THEN PPanic("SELECTOR_RANGE") ELSE Pass(d))
    ELSE ProcAnswer(p, m, O, d, EidAfter(p, m))

ProcK(p, m, O, k) == ProcD(p, m, O, DecK(p, O, k))

Proc(p, m, O) == ProcK(p, m, O, PecGood(p))

(* ---- the DSP0236-conformant refinement for requests the endpoint cannot carry out ---- *)
(* The listed properties leave the treatment of such a request open (ignored, or answered  *)
(* with an error code: X01 in Trace.tla accepts both); DSP0236 asks for an error response, *)
(* and that is what a bus owner's bring-up relies on to move past a command the endpoint   *)
(* does not implement (Link.tla, script step "unsupp").                                    *)
ErrBody(p, m) ==
    IF Cmd(p) = 0 \/ Cmd(p) > 6 THEN << CC_UNSUPPORTED >>
    ELSE IF Cmd(p) = 1 THEN << CC_INVALID_DATA, 0, m.eidResp, 0 >>
    ELSE << CC_INVALID_DATA, 255 >>
ProcEX(p, m, x) ==
    IF x.kind = "ok" /\ x.type = MT_CONTROL /\ Rq(p) = 1 /\ ~x.has /\ ~Answered(p, m)
    THEN [x EXCEPT !.has = TRUE, !.resp = RespPkt(p, m, Iid(p), ErrBody(p, m))]
    ELSE x
ProcE(p, m, O) == ProcEX(p, m, Proc(p, m, O))

(* --------------------------- encoders, as-is --------------------------- *)
(* what the shared packet writer does with a message that does not fit the  *)
(* one-byte count: r = [kind, count]                                        *)
WriterAsIs(total, O) ==
    IF "BYTECOUNT_WRAP" \in O
    THEN IF total >= 256 /\ total % 256 < 4 THEN [kind |-> "panic", count |-> 0]
         ELSE [kind |-> "ok", count |-> (total % 256) - 4]
    ELSE IF total <= MaxTotal THEN [kind |-> "ok", count |-> total - 4]
         ELSE [kind |-> "err", count |-> 0]
=============================================================================
